----------------------------- MODULE MC_Replace -----------------------------
(* C09 (and C01 / C12 for replacements): replace-message and                *)
(* replace-deposit-for-burn over originals that are the submitter's own,    *)
(* someone else's, module-sent deposits of the submitter / of someone else, *)
(* foreign-domain, truncated, non-burn; attested validly, not at all, or by *)
(* a set that has been rotated away; in every flag state.                   *)
EXTENDS MCBase

AttSets == {{A("k1"), A("k2")}, {A("k2"), A("k3")}}
Flags   == IF Thorough THEN BOOLEAN \X BOOLEAN ELSE {<<FALSE, FALSE>>, <<TRUE, FALSE>>, <<FALSE, TRUE>>}
MCInit  == {[BaseState EXCEPT !.pausedBM = fl[1], !.pausedSR = fl[2], !.attesters = as, !.nextNonce = 5, !.maxBody = mb] :
              fl \in Flags, as \in AttSets, mb \in (IF Thorough THEN {200, 131} ELSE {200})}

Atts == {Att(<<Sg("k1")>>), Att(<<Sg("k2")>>), Att(<<>>)} \cup (IF Thorough THEN {Att(<<Sg("k1"), Sg("k2")>>), Att(<<[k |-> "k2", over |-> "other", enc |-> "v01"]>>)} ELSE {})

DepBody(from, amt) == BurnBody(0, KTok(MINT), B("j", "x1"), amt, Pad(from))
Originals ==
  { PlainOut("a1", 3), PlainOut("a2", 3),                                               \* own / someone else's
    WireMsg(0, "d1", NOBLE, 3, Pad("a1"), R1, Zero32, Raw(1, 10)),                      \* foreign source domain
    WireMsg(0, NOBLE, "d1", 3, B("j", "a1"), R1, Zero32, Raw(1, 10)),                   \* sender with junk high bytes
    DepOutMsg("a1", 2, 2), DepOutMsg("a2", 2, 2),                                       \* deposits of self / other
    WireMsg(0, NOBLE, "d1", 2, Pad("a1"), M1, Zero32, DepBody("a1", 2)),                \* burn-shaped body sent by a user
    WireMsg(0, "d1", NOBLE, 2, ModulePadded, M1, Pad("a3"), DepBody("a1", 2)),          \* module-sent but foreign source
    WireMsg(0, NOBLE, "d1", 2, ModulePadded, M1, Zero32, Raw(1, 132)),                  \* module-sent, junk 132-byte body
    WireMsg(0, NOBLE, "d1", 2, ModulePadded, M1, Zero32, Raw(1, 40)),
    [k |-> "short", len |-> 115, id |-> 1],
    \* originals no honest Noble chain emitted but the attesters signed: other header / body versions, nonce 0, a caller
    WireMsg(1, NOBLE, "d1", 3, Pad("a1"), R1, Zero32, Raw(1, 10)),
    WireMsg(2, NOBLE, "d1", 2, ModulePadded, M1, Zero32, DepBody("a1", 2)),
    WireMsg(0, NOBLE, "d1", 2, ModulePadded, M1, Zero32, BurnBody(7, KTok(MINT), B("j", "x1"), 2, Pad("a1"))),
    DepOutMsg("a1", 0, 2),
    WireMsg(0, NOBLE, "d1", 3, Pad("a1"), R1, B("j", "x1"), Raw(1, 10)) }
\* (over-long callers: nothing but a length check keeps their tail from spilling into the fields behind them)
NewCallers == IF Thorough THEN {Zero32, B("j", "x2"), Empty, Bytes(31, "junk"), Bytes(33, "junk"), Bytes(64, "junk"), Bytes(96, "junk")}
                          ELSE {Zero32, B("j", "x2"), Empty, Bytes(33, "junk"), Bytes(64, "junk")}
NewBodies  == IF Thorough THEN {Raw(2, 12), Raw(1, 0), Raw(2, 200), Raw(2, 201), DepBody("a1", 3)} ELSE {Raw(2, 12), Raw(2, 201), DepBody("a1", 3)}
NewRcpts   == IF Thorough THEN {B("j", "x2"), Pad("a2"), Zero32, Empty, Bytes(31, "junk"), Bytes(33, "junk"), Bytes(64, "junk"), Bytes(96, "junk")}
                          ELSE {B("j", "x2"), Zero32, Bytes(31, "junk"), Bytes(64, "junk")}

MCMsgs(s, h) ==
       [type : {"ReplaceMessage"}, from : {"a1"}, orig : Originals, att : Atts, body : NewBodies, caller : NewCallers]
  \cup [type : {"ReplaceDepositForBurn"}, from : {"a1"}, orig : Originals, att : Atts, mrcpt : NewRcpts, caller : NewCallers]

Init == InitOver(MCInit)
Next == NextOver(MCMsgs, 1)
Spec == Init /\ [][Next]_vars

\* C09 on the model
ReplaceTouchesNothing == [][Ended => (st' = st /\ last'.calls = <<>>)]_vars
ReplaceOnlyOwnAttested ==
  [][(Ended /\ last'.res = "ok") =>
       LET m == last'.msg
           o == m.orig
           w == SentMsgs(last'.evs)[1] IN
       /\ AttestDecl(st.attesters, st.threshold, m.att)
       /\ o.k = "msg" /\ o.src = NOBLE
       /\ ~st.pausedSR
       /\ <<w.ver, w.src, w.dst, w.nonce, w.sender, w.rcpt>> = <<0, NOBLE, o.dst, o.nonce, o.sender, o.rcpt>>
       /\ w.caller = m.caller
       /\ IF m.type = "ReplaceMessage"
          THEN o.sender = Pad(m.from) /\ w.body = m.body
          ELSE /\ ~st.pausedBM
               /\ o.sender = ModulePadded /\ o.body.k = "burn" /\ o.body.sender = Pad(m.from)
               /\ w.body = [o.body EXCEPT !.rcpt = m.mrcpt]]_vars
=============================================================================
