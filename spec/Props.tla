------------------------------- MODULE Props -------------------------------
(***************************************************************************)
(* The listed properties C01..C20 as predicates.                            *)
(*                                                                          *)
(* Every per-transaction property is a *lens* L(pre, m, f, o): a predicate  *)
(* over the pre-state, the message, the fault schedule and an observation   *)
(* record o = [res, resp, calls, evs, post, junk, writes, vas].  It is      *)
(* written declaratively where the property gives an "exactly when" (C01,   *)
(* C03, C08), and otherwise relative to exp = Run(pre, m, f).               *)
(*   - On the bounded models TLC checks that the specification's own        *)
(*     observation satisfies every lens on every edge (operational =        *)
(*     declarative; the oracle is property-correct).                        *)
(*   - Trace.tla evaluates the same lenses on observations of the code.     *)
(* History properties are state predicates over (st, hist).                 *)
(***************************************************************************)
EXTENDS CCTP

PropIds == {"C01", "C02", "C03", "C04", "C05", "C06", "C07", "C08", "C09", "C10",
            "C11", "C12", "C13", "C14", "C15", "C19", "C20"}

ResOf(o)           == IF o.res = "panic" THEN "err" ELSE o.res     \* a panic is a failed transaction (C20 aside)
CallsOf(calls, fn) == SelectSeq(calls, LAMBDA c : c.fn = fn)
OkCalls(calls, fn) == SelectSeq(calls, LAMBDA c : c.fn = fn /\ c.ok)
EvsOf(evs, name)   == SelectSeq(evs, LAMBDA e : e.e = name)
Outcome(calls, fn) == IF CallsOf(calls, fn) = <<>> THEN TRUE ELSE CallsOf(calls, fn)[1].ok
HasAtt(m)          == m.type \in {"ReceiveMessage", "ReplaceMessage", "ReplaceDepositForBurn"}
WireOf(m)          == IF m.type = "ReceiveMessage" THEN m.wire ELSE m.orig
FreshTypes         == {"SendMessage", "SendMessageWithCaller", "DepositForBurn", "DepositForBurnWithCaller"}
DepTypes           == {"DepositForBurn", "DepositForBurnWithCaller"}
ReplTypes          == {"ReplaceMessage", "ReplaceDepositForBurn"}
IsModuleRecv(m)    == m.type = "ReceiveMessage" /\ m.wire.k = "msg" /\ m.wire.rcpt = ModulePadded
Ledger(s)          == <<s.bal, s.supply>>
Roles(s)           == <<s.owner, s.pending, s.attMgr, s.pauser, s.tokCtl>>

---------------------------------------------------------------------------
(* Declarative acceptance predicates                                        *)

\* C03: the statement of the property, condition by condition
RecvAccept(s, m, mintOk) ==
  LET w == m.wire IN
  /\ ~s.pausedSR
  /\ AttestDecl(s.attesters, s.threshold, m.att)
  /\ w.k = "msg"                                           \* full 116-byte header
  /\ w.dst = NOBLE
  /\ w.ver = 0
  /\ [d |-> w.src, n |-> w.nonce] \notin s.used
  /\ (IsZero32(w.caller) \/ w.caller.lo = m.from)          \* all-zero or names the submitter
  /\ (w.rcpt = ModulePadded =>
        /\ ~s.pausedBM
        /\ w.body.k = "burn" /\ w.body.ver = 0             \* 132-byte version-0 burn message
        /\ HasMsgr(s, w.src) /\ MsgrOf(s, w.src).addr = w.sender
        /\ HasPair(s, w.src, w.body.tok)
        /\ mintOk)

\* C08
DepositAccept(s, m, transferOk, burnOk) ==
  /\ ValidAddr(m.from)
  /\ m.amt # ABSENT /\ m.amt > 0
  /\ (HasLimit(s, MintLower) => m.amt <= LimitOf(s, MintLower))    \* limits are kept under the lower-cased denom
  /\ m.tok = MINT
  /\ m.mrcpt.n = 32 /\ ~IsZeroBytes(m.mrcpt)
  /\ HasMsgr(s, m.dst) /\ MsgrOf(s, m.dst).addr.n = 32 /\ ~IsZeroBytes(MsgrOf(s, m.dst).addr)
  /\ ~s.pausedBM /\ ~s.pausedSR
  /\ 132 <= s.maxBody
  /\ transferOk /\ burnOk
  /\ (IsDepC(m) => m.caller.n = 32 /\ ~IsZeroBytes(m.caller))

\* C10: the holder of the role a privileged transaction type needs
Holder(s, type) ==
  CASE type \in OwnerTypes  -> s.owner
    [] type \in AttMgrTypes -> s.attMgr
    [] type \in PauserTypes -> s.pauser
    [] type \in TokCtlTypes -> s.tokCtl
    [] type = "AcceptOwner" -> s.pending

\* C12: the flags that name a flow
BlockedBy(s, m) ==
  CASE m.type \in {"SendMessage", "SendMessageWithCaller", "ReplaceMessage"} -> s.pausedSR
    [] m.type \in DepTypes \cup {"ReplaceDepositForBurn"}                       -> s.pausedSR \/ s.pausedBM
    [] m.type = "ReceiveMessage" -> s.pausedSR \/ (IsModuleRecv(m) /\ s.pausedBM)
    [] OTHER -> FALSE

ThresholdOK(s) == 1 <= s.threshold /\ s.threshold <= Cardinality(s.attesters)

\* inputs on which the property statements are silent (DESIGN 2.7): the specification models what the code does
\* there, but no lens may depend on it
\* an attestation containing a malleated (high-s) signature: the statement forbids that it lowers the number of
\* distinct signers, it does not demand that it be accepted (the code accepts it today; low-s enforcement is a
\* hardening)
MalleatedAtt(m) == m.type \in {"ReceiveMessage", "ReplaceMessage", "ReplaceDepositForBurn"} /\ \E i \in DOMAIN m.att.sigs : m.att.sigs[i].enc \in {"hs01", "hs2728"}
DontCare(m) ==
  \/ MalleatedAtt(m)
  \/ (m.type = "ReceiveMessage" /\ m.wire.k = "msg" /\ ~IsZero32(m.wire.caller) /\ m.wire.caller.hi # "z")
  \/ (m.type \in ReplTypes /\ m.caller.n # 32)
  \* registering values that can never work (the code accepts them today; refusing them would break no property)
  \/ (m.type = "EnableAttester" /\ UsableAttester(m.att) /\ m.att.key \notin RealKeys)        \* not a public key
  \/ (m.type = "AddRemoteTokenMessenger" /\ IsZero32(m.addr))
  \/ (m.type = "LinkTokenPair" /\ m.denom \notin {"MINT", "MINT_UP", "MINT_LOW", "OTHER", "OTHER_UP"})
  \/ (m.type = "SetMaxBurnAmountPerMessage" /\ (m.amt < 0 \/ m.denom \notin {"MINT", "MINT_UP", "MINT_LOW", "OTHER", "OTHER_UP"}))
RegistryTypes == {"LinkTokenPair", "UnlinkTokenPair", "AddRemoteTokenMessenger", "RemoveRemoteTokenMessenger",
                  "SetMaxBurnAmountPerMessage", "EnableAttester", "DisableAttester"}

---------------------------------------------------------------------------
(* C15: documented write sets, over abstract store keys                     *)
\* abstract store keys: [k] for the single-valued entries, [k, id] for registry entries; `id` is always a
\* record (TLC refuses to compare a string with a record when it normalises a set)
K1(k)     == [k |-> k]
K2(k, id) == [k |-> k, id |-> id]
AllowedWrites(m) ==
  CASE m.type = "ReceiveMessage" ->
         IF m.wire.k = "msg" THEN {K2("used", [d |-> m.wire.src, n |-> m.wire.nonce])} ELSE {}
    [] m.type \in FreshTypes -> {K1("nextNonce")}
    [] m.type \in ReplTypes  -> {}
    [] m.type = "UpdateOwner" -> {K1("pending")}
    [] m.type = "AcceptOwner" -> {K1("owner"), K1("pending")}
    [] m.type = "UpdateAttesterManager" -> {K1("attMgr")}
    [] m.type = "UpdatePauser" -> {K1("pauser")}
    [] m.type = "UpdateTokenController" -> {K1("tokCtl")}
    [] m.type = "UpdateMaxMessageBodySize" -> {K1("maxBody")}
    [] m.type \in {"AddRemoteTokenMessenger", "RemoveRemoteTokenMessenger"} -> {K2("msgr", [d |-> m.d])}
    [] m.type \in {"EnableAttester", "DisableAttester"} -> {K2("attester", m.att)}
    [] m.type = "UpdateSignatureThreshold" -> {K1("threshold")}
    [] m.type \in {"PauseBurningAndMinting", "UnpauseBurningAndMinting"} -> {K1("pausedBM")}
    [] m.type \in {"PauseSendingAndReceivingMessages", "UnpauseSendingAndReceivingMessages"} -> {K1("pausedSR")}
    [] m.type \in {"LinkTokenPair", "UnlinkTokenPair"} -> {K2("pair", [d |-> m.d, t |-> m.tok])}
    [] m.type = "SetMaxBurnAmountPerMessage" -> {K2("limit", [denom |-> Lower(m.denom)])}

SymDiff(X, Y) == (X \ Y) \cup (Y \ X)
ScalarKeys == {"owner", "pending", "attMgr", "pauser", "tokCtl", "threshold", "pausedBM", "pausedSR", "maxBody", "nextNonce"}
KeysChanged(a, b) ==
       {K1(f) : f \in {g \in ScalarKeys : a[g] # b[g]}}
  \cup {K2("attester", x) : x \in SymDiff(a.attesters, b.attesters)}
  \cup {K2("used", x) : x \in SymDiff(a.used, b.used)}
  \cup {K2("pair", [d |-> p.d, t |-> p.t]) : p \in SymDiff(a.pairs, b.pairs)}
  \cup {K2("msgr", [d |-> x.d]) : x \in SymDiff(a.msgrs, b.msgrs)}
  \cup {K2("limit", [denom |-> x.denom]) : x \in SymDiff(a.limits, b.limits)}

---------------------------------------------------------------------------
(* Observation record of the specification itself                           *)
SpecObs(pre, o, post) ==
  [res |-> o.res, resp |-> o.resp, calls |-> o.calls, evs |-> o.evs, post |-> post,
   junk |-> {}, writes |-> KeysChanged(pre, post),
   vas |-> IF HasAtt(o.msg)
           THEN (IF AttestOK(pre.attesters, pre.threshold, o.msg.att) THEN "ok" ELSE "err")
           ELSE "na"]

---------------------------------------------------------------------------
(* C19, query half: what the 19 queries report (record q written by the     *)
(* harness: scalars, every page of every list query in key and offset mode, *)
(* single-item lookups of present and absent keys) against the state.       *)
RECURSIVE Flat(_)
Flat(pp) == IF pp = <<>> THEN <<>> ELSE Head(pp) \o Flat(Tail(pp))
PagesOK(pp, limit, S) ==
  LET cat == Flat(pp) IN
  /\ Len(cat) = Cardinality(S) /\ {cat[i] : i \in DOMAIN cat} = S           \* every entry exactly once
  /\ \A i \in DOMAIN pp : Len(pp[i]) <= limit /\ (i < Len(pp) => Len(pp[i]) = limit)
ListOK(w, S) == /\ w.keyres = "ok" /\ w.offres = "ok"
                /\ PagesOK(w.key, w.limit, S) /\ PagesOK(w.offset, w.limit, S)
                /\ \A i \in DOMAIN w.totals : w.totals[i] = Cardinality(S)
                \* one page of 1000 continued from the cursor after the first entry holds exactly the rest
                /\ ("bigres" \in DOMAIN w /\ Cardinality(S) >= 2) => (w.bigres = "ok" /\ w.bigkey = Tail(Flat(w.key)))
HasKey(s, reg, key) ==
  CASE reg = "attesters" -> key \in s.attesters
    [] reg = "limits"    -> \E x \in s.limits : x.denom = key
    [] reg = "msgrs"     -> HasMsgr(s, key)
    [] reg = "pairs"     -> HasPair(s, key.d, key.t)
    [] reg = "used"      -> key \in s.used
EntryOf(s, reg, key) ==
  CASE reg = "attesters" -> key
    [] reg = "limits"    -> CHOOSE x \in s.limits : x.denom = key
    [] reg = "msgrs"     -> MsgrOf(s, key)
    [] reg = "pairs"     -> PairOf(s, key.d, key.t)
    [] reg = "used"      -> key
QueryOK(q, s) ==
  /\ ~q.panic
  /\ <<q.owner, q.attMgr, q.pauser, q.tokCtl>> = <<s.owner, s.attMgr, s.pauser, s.tokCtl>>
  /\ <<q.pausedBM, q.pausedSR, q.threshold, q.maxBody, q.nextNonce>> = <<s.pausedBM, s.pausedSR, s.threshold, s.maxBody, s.nextNonce>>
  /\ <<q.localDomain, q.msgVersion, q.burnVersion>> = <<4, 0, 0>>
  /\ ListOK(q.attesters, s.attesters) /\ ListOK(q.limits, s.limits) /\ ListOK(q.pairs, s.pairs)
  /\ ListOK(q.msgrs, s.msgrs) /\ ListOK(q.used, s.used)
  /\ \A i \in DOMAIN q.gets :
        LET g == q.gets[i] IN
        /\ g.found <=> HasKey(s, g.reg, g.key)
        /\ g.found => g.val = EntryOf(s, g.reg, g.key)

---------------------------------------------------------------------------
(* Lenses.  A(p, ..) : the property speaks about this case.  L(p, ..) : it  *)
(* holds on this case.                                                      *)

SentMsgs(evs) == [i \in DOMAIN EvsOf(evs, "MessageSent") |-> EvsOf(evs, "MessageSent")[i].msg]

\* a multi-message transaction is judged as a whole: all-or-nothing (C14) and no crash (C20); the
\* transactions that follow it are judged against the state it left behind
Applies(p, pre, m, f, o) ==
  IF m.type = "Simulate" THEN p \in {"C15", "C20"} ELSE      \* a simulated transaction must not change anything
  IF m.type = "Batch" THEN p \in {"C14", "C20"} ELSE
  CASE p = "C01" -> TRUE
    [] p = "C02" -> TRUE
    [] p = "C03" -> m.type = "ReceiveMessage" /\ (m.wire.k = "msg" => m.wire.caller.hi = "z")
    [] p = "C04" -> TRUE
    [] p = "C05" -> TRUE
    [] p = "C06" -> m.type \in FreshTypes \cup ReplTypes /\ ResOf(o) = "ok"
    [] p = "C07" -> TRUE
    [] p = "C08" -> m.type \in DepTypes
    [] p = "C09" -> m.type \in ReplTypes /\ m.caller.n = 32
    [] p = "C10" -> m.type \in PrivTypes /\ m.from # Holder(pre, m.type)
    [] p = "C11" -> TRUE
    [] p = "C12" -> TRUE
    [] p = "C13" -> ThresholdOK(pre)
    [] p = "C14" -> m.type \in DepTypes \cup {"ReceiveMessage"}
    [] p = "C15" -> TRUE
    [] p = "C19" -> TRUE
    [] p = "C20" -> TRUE

LensR(p, pre, m, f, o, r) ==
  LET exp  == r.out
      res  == ResOf(o)
      both == res = "ok" /\ exp.res = "ok"
  IN
  CASE p = "C01" ->
         \* "currently enabled" and "threshold" mean what the history of transactions established
         \* (a transaction the code refuses without effect establishes nothing: refusing more than the
         \*  specification does breaks no property that says "only")
         /\ ~DontCare(m) => \/ (o.post.attesters = r.post.attesters /\ o.post.threshold = r.post.threshold)
                            \/ (res # "ok" /\ o.post = pre)
         /\ HasAtt(m) =>
              \* the verifier accepts exactly the quorum attestations; no handler accepts without one
              /\ (o.vas = "ok") => AttestDecl(pre.attesters, pre.threshold, m.att)
              /\ (AttestDecl(pre.attesters, pre.threshold, m.att) /\ ~MalleatedAtt(m)) => o.vas = "ok"   \* conversely, honest ones
              /\ res = "ok" => AttestDecl(pre.attesters, pre.threshold, m.att)
              /\ AttestDecl(pre.attesters, pre.threshold, m.att)
                   => DistinctEnabledSigners(pre.attesters, m.att) >= pre.threshold
    [] p = "C02" ->
         LET isRecv == m.type = "ReceiveMessage" /\ m.wire.k = "msg"
             key    == [d |-> m.wire.src, n |-> m.wire.nonce] IN
         /\ pre.used \subseteq o.post.used                                     \* used stays used
         /\ (o.post.used \ pre.used) \subseteq (IF isRecv /\ res = "ok" THEN {key} ELSE {})
         /\ (isRecv /\ res = "ok") => (key \notin pre.used /\ key \in o.post.used)
    [] p = "C03" ->
         /\ (res = "ok") => RecvAccept(pre, m, Outcome(o.calls, "Mint"))
         /\ (RecvAccept(pre, m, Outcome(o.calls, "Mint")) /\ ~MalleatedAtt(m)) => res = "ok"
         /\ res # "ok" => o.post = pre                                     \* no mint, no nonce consumed
    [] p = "C04" ->
         /\ both => /\ OkCalls(o.calls, "Mint") = OkCalls(exp.calls, "Mint")
                    /\ EvsOf(o.evs, "MintAndWithdraw") = EvsOf(exp.evs, "MintAndWithdraw")
                    /\ EvsOf(o.evs, "MessageReceived") = EvsOf(exp.evs, "MessageReceived")
                    /\ Ledger(o.post) = Ledger(r.post)
         \* what is requested from the token factory (in whose name, to whom, which denom, how much),
         \* whatever the factory then answers
         /\ (CallsOf(o.calls, "Mint") # <<>> /\ CallsOf(exp.calls, "Mint") # <<>>) =>
               [CallsOf(o.calls, "Mint")[1] EXCEPT !.ok = TRUE] = [CallsOf(exp.calls, "Mint")[1] EXCEPT !.ok = TRUE]
         /\ (res = "ok" /\ ~IsModuleRecv(m)) => CallsOf(o.calls, "Mint") = <<>>
         /\ (res = "ok" /\ IsModuleRecv(m)) => Len(CallsOf(o.calls, "Mint")) = 1
         \* the one mint is what the burn message and the linked pair say, in the module's name
         /\ (res = "ok" /\ IsModuleRecv(m) /\ CallsOf(o.calls, "Mint") # <<>>) =>
               /\ m.wire.body.k = "burn" /\ HasPair(pre, m.wire.src, m.wire.body.tok)
               /\ CallsOf(o.calls, "Mint")[1] =
                     [fn |-> "Mint", from |-> MODULE_ACC, to |-> m.wire.body.rcpt.lo,
                      denom |-> Lower(PairOf(pre, m.wire.src, m.wire.body.tok).denom), amt |-> m.wire.body.amt, ok |-> TRUE]
         /\ res # "ok" => Ledger(o.post) = Ledger(pre)
    [] p = "C05" ->
         /\ both => /\ OkCalls(o.calls, "Transfer") = OkCalls(exp.calls, "Transfer")
                    /\ OkCalls(o.calls, "Burn") = OkCalls(exp.calls, "Burn")
                    /\ Ledger(o.post) = Ledger(r.post)
         /\ (res = "ok" /\ m.type \notin DepTypes) =>
               (CallsOf(o.calls, "Transfer") = <<>> /\ CallsOf(o.calls, "Burn") = <<>>)
         \* what is asked of the ledger, whatever it answers: the depositor (nobody else) is debited exactly the
         \* stated amount of the stated token, and the same coin is burnt in the module's name
         /\ \A i \in DOMAIN o.calls :
               LET c == o.calls[i] IN
               /\ c.fn = "Transfer" => (m.type \in DepTypes /\ <<c.from, c.to, c.denom, c.amt>> = <<m.from, MODULE_ACC, m.tok, m.amt>>)
               /\ c.fn = "Burn"     => (m.type \in DepTypes /\ <<c.from, c.denom, c.amt>> = <<MODULE_ACC, m.tok, m.amt>>)
         /\ o.post.bal[MODULE_ACC] = pre.bal[MODULE_ACC]                    \* nothing is left in the module account
         \* a replacement of a deposit speaks for the same burn: token, amount and depositor are the original's
         /\ (res = "ok" /\ m.type = "ReplaceDepositForBurn" /\ m.orig.k = "msg" /\ m.orig.body.k = "burn") =>
               \A i \in DOMAIN SentMsgs(o.evs) :
                  LET w == SentMsgs(o.evs)[i] IN
                  w.k = "msg" /\ w.body.k = "burn" /\ w.body.amt = m.orig.body.amt /\ w.body.tok = m.orig.body.tok
                  /\ w.body.sender = m.orig.body.sender /\ w.nonce = m.orig.nonce
         \* ... and only a message that itself speaks as the token messenger (a deposit's message) can be replaced that way
         /\ (res = "ok" /\ m.type = "ReplaceDepositForBurn") =>
               (m.orig.k = "msg" /\ m.orig.sender = ModulePadded /\ m.orig.src = NOBLE /\ m.orig.body.k = "burn")
         /\ \A i \in DOMAIN SentMsgs(o.evs) :
               LET w == SentMsgs(o.evs)[i] IN
               w.k = "msg" /\ w.sender = (IF m.type \in DepTypes \cup {"ReplaceDepositForBurn"}
                                          THEN ModulePadded ELSE Pad(m.from))
    [] p = "C06" ->
         /\ exp.res = "ok" => /\ SentMsgs(o.evs) = SentMsgs(exp.evs)
                              /\ EvsOf(o.evs, "DepositForBurn") = EvsOf(exp.evs, "DepositForBurn")
                              /\ o.resp = exp.resp
         \* the content, stated directly from the request and the configuration (whatever the oracle's verdict):
         \* a deposit's message goes to the messenger REGISTERED for the destination and carries the burn as requested
         /\ m.type \in DepTypes =>
              /\ HasMsgr(pre, m.dst)
              /\ SentMsgs(o.evs) = <<WireMsg(0, NOBLE, m.dst, pre.nextNonce, ModulePadded, MsgrOf(pre, m.dst).addr,
                                             IF IsDepC(m) THEN m.caller ELSE Zero32,
                                             BurnBody(0, KTok(MintLower), m.mrcpt, m.amt, Pad(m.from)))>>
         /\ m.type \in {"SendMessage", "SendMessageWithCaller"} =>
              SentMsgs(o.evs) = <<WireMsg(0, NOBLE, m.dst, pre.nextNonce, Pad(m.from), m.rcpt,
                                         IF m.type = "SendMessage" THEN Zero32 ELSE m.caller, m.body)>>
    [] p = "C07" ->
         LET fresh == m.type \in FreshTypes /\ res = "ok" IN
         /\ o.post.nextNonce = pre.nextNonce + (IF fresh THEN 1 ELSE 0)
         /\ fresh => /\ o.resp.nonce = pre.nextNonce
                     /\ Len(SentMsgs(o.evs)) = 1
                     /\ SentMsgs(o.evs)[1].k = "msg" /\ SentMsgs(o.evs)[1].nonce = pre.nextNonce
         /\ (m.type \in ReplTypes /\ res = "ok") =>
               /\ Len(SentMsgs(o.evs)) = 1
               /\ SentMsgs(o.evs)[1].k = "msg" /\ m.orig.k = "msg"
               /\ SentMsgs(o.evs)[1].nonce = m.orig.nonce
    [] p = "C08" ->
         (res = "ok") <=> DepositAccept(pre, m, Outcome(o.calls, "Transfer"), Outcome(o.calls, "Burn"))
    [] p = "C09" ->
         /\ res = "ok" => exp.res = "ok"                                      \* "succeeds ONLY for ..."
         /\ o.post = pre                                                      \* moves nothing, stores nothing
         /\ both => SentMsgs(o.evs) = SentMsgs(exp.evs)
    [] p = "C10" -> res # "ok" /\ o.post = pre
    [] p = "C11" -> /\ \/ Roles(o.post) = Roles(r.post)
                       \* the delegated roles change "only through the owner's update, only to valid addresses":
                       \* an update refused without effect is within the property
                       \/ /\ m.type \in {"UpdateAttesterManager", "UpdatePauser", "UpdateTokenController"}
                          /\ res # "ok" /\ o.post = pre
                    \* ... and who the chain REPORTS as holders is who holds the slots
                    /\ ("q" \in DOMAIN o /\ ~o.q.panic) =>
                          <<o.q.owner, o.q.attMgr, o.q.pauser, o.q.tokCtl>> = <<o.post.owner, o.post.attMgr, o.post.pauser, o.post.tokCtl>>
    [] p = "C12" ->
         /\ BlockedBy(pre, m) => res # "ok"
         \* stated directly: while burning-and-minting is paused nothing is minted, burnt or taken; while
         \* sending-and-receiving is paused nothing is sent, replaced or received
         /\ pre.pausedBM => /\ Ledger(o.post) = Ledger(pre)
                            /\ OkCalls(o.calls, "Mint") = <<>> /\ OkCalls(o.calls, "Burn") = <<>>
                            /\ EvsOf(o.evs, "MintAndWithdraw") = <<>> /\ EvsOf(o.evs, "DepositForBurn") = <<>>
         /\ pre.pausedSR => /\ SentMsgs(o.evs) = <<>> /\ EvsOf(o.evs, "MessageReceived") = <<>>
                            /\ o.post.used = pre.used /\ o.post.nextNonce = pre.nextNonce
         /\ <<o.post.pausedBM, o.post.pausedSR>> = <<r.post.pausedBM, r.post.pausedSR>>
         \* unnamed flows and administrative actions stay available: where the specification lets the transaction
         \* through although a flag is set and the code refuses it, the refusal must not be the pause's doing --
         \* the identical, unpaused chain (the harness' counterfactual run `cf`) refuses it too
         /\ ((pre.pausedBM \/ pre.pausedSR) /\ exp.res = "ok" /\ ~DontCare(m) /\ res # "ok") =>
               ("cf" \in DOMAIN o /\ o.cf # "ok")
    [] p = "C13" ->
         /\ ThresholdOK(o.post)
         /\ (m.type \in AttMgrTypes /\ ~DontCare(m)) =>
               \* (both directions: the property record names "refusing threshold = number of attesters" as a
               \*  change that breaks it -- the boundaries are exact)
               (res = exp.res /\ o.post.attesters = r.post.attesters /\ o.post.threshold = r.post.threshold)
    [] p = "C14" /\ m.type = "Batch" ->
         LET silent == \E i \in DOMAIN m.msgs : DontCare(m.msgs[i]) IN     \* (a message the properties are silent about)
         /\ (~silent /\ res = "ok") => exp.res = "ok"              \* succeeds only if every message of it does
         /\ res # "ok" => (o.post = pre /\ o.evs = <<>>)          \* the first failing message discards everything
         /\ (res = "ok" /\ ~silent) => (o.post = r.post /\ o.evs = exp.evs /\ o.calls = exp.calls)
    [] p = "C14" ->
         /\ res # "ok" => (o.post = pre /\ o.evs = <<>>)
         /\ (res = "ok" /\ m.type \in DepTypes) =>
               /\ Len(OkCalls(o.calls, "Transfer")) = 1 /\ Len(OkCalls(o.calls, "Burn")) = 1
               /\ \A i \in DOMAIN o.calls : o.calls[i].ok
               /\ Len(SentMsgs(o.evs)) = 1
         /\ (res = "ok" /\ IsModuleRecv(m)) => Len(OkCalls(o.calls, "Mint")) = 1
         /\ ((\E i \in DOMAIN f : ~f[i]) /\ ~DontCare(m) /\ res = "ok") => exp.res = "ok"   \* a failed dependency fails the transfer
    [] p = "C15" /\ m.type = "Simulate" -> o.post = pre /\ o.junk = {}
    [] p = "C15" ->
         /\ o.junk = {}
         /\ KeysChanged(pre, o.post) \subseteq (IF res = "ok" THEN AllowedWrites(m) ELSE {})
         /\ res = "ok" => o.writes \subseteq AllowedWrites(m)
    [] p = "C19" ->
         \* registries are exact maps: adding, removing and setting behave as specified, and no transaction
         \* (whatever its own fate) leaves the registries in another shape than the specification says
         \* (a registry transaction refused without effect establishes nothing: the registries stay exactly
         \*  those established by the SUCCESSFUL transactions)
         /\ (m.type \in RegistryTypes /\ ~DontCare(m)) => (res = exp.res \/ (res # "ok" /\ o.post = pre))
         /\ (res = exp.res /\ ~DontCare(m)) =>
              <<o.post.attesters, o.post.limits, o.post.pairs, o.post.msgrs, o.post.used>>
                = <<r.post.attesters, r.post.limits, r.post.pairs, r.post.msgrs, r.post.used>>
         \* queries reflect the state (when the observation includes the query view)
         /\ "q" \in DOMAIN o => QueryOK(o.q, o.post)
    [] p = "C20" -> o.res # "panic"

Lens(p, pre, m, f, o) == LensR(p, pre, m, f, o, Run(pre, m, f))
\* full conformance with the specification (stricter than any listed property: order of checks, admin event
\* payloads, behaviour where the properties are silent); reported as a NOTE, never as a violation
Diverges(pre, m, f, o) ==
  LET r == Run(pre, m, f) IN
  ~(ResOf(o) = r.out.res /\ o.post = r.post /\ o.evs = r.out.evs /\ o.calls = r.out.calls /\ o.resp = r.out.resp)
\* ---- along the history ----------------------------------------------------------------------------------
\* x is the state that the history of transactions establishes under the specification.  The code may accept a
\* transaction only if the specification, in that state, accepts it: "currently enabled attester", "current
\* holder", "unused nonce", "not paused", "registered messenger" are statements about the history, not about
\* whatever a store slot (or a memory cell) happens to hold.  Only this direction, and never in a don't-care zone.
AnyDontCare(m) ==
  CASE m.type = "Batch"    -> \E i \in DOMAIN m.msgs : DontCare(m.msgs[i])
    [] m.type = "Simulate" -> (IF m.tx.type = "Batch" THEN \E i \in DOMAIN m.tx.msgs : DontCare(m.tx.msgs[i]) ELSE DontCare(m.tx))
    [] OTHER               -> DontCare(m)
AlongHistory(x, m, f, o) ==
  IF m.type \in {"Batch", "Simulate"} \/ DontCare(m) \/ ResOf(o) # "ok" THEN {} ELSE
  LET xr == Run(x, m, f) IN
  IF xr.out.res = "ok" THEN {} ELSE
       (IF m.type = "ReceiveMessage" THEN {"C03"} ELSE {})
  \cup (IF HasAtt(m) /\ ~AttestDecl(x.attesters, x.threshold, m.att) THEN {"C01"} ELSE {})
  \cup (IF m.type = "ReceiveMessage" /\ m.wire.k = "msg" /\ [d |-> m.wire.src, n |-> m.wire.nonce] \in x.used THEN {"C02"} ELSE {})
  \cup (IF m.type \in DepTypes THEN {"C08"} ELSE {})
  \cup (IF m.type \in ReplTypes THEN {"C09"} ELSE {})
  \cup (IF BlockedBy(x, m) THEN {"C12"} ELSE {})
  \cup (IF m.type \in PrivTypes /\ m.from # Holder(x, m.type) THEN {"C10"} ELSE {})
  \cup (IF m.type \in {"UpdateOwner", "AcceptOwner", "UpdateAttesterManager", "UpdatePauser", "UpdateTokenController"}
           /\ m.from = Holder(x, m.type) THEN {"C11"} ELSE {})
  \cup (IF m.type \in AttMgrTypes /\ m.from = Holder(x, m.type) THEN {"C13"} ELSE {})
  \cup (IF m.type \in RegistryTypes /\ m.from = Holder(x, m.type) THEN {"C19"} ELSE {})
  \cup (IF IsModuleRecv(m) THEN {"C04"} ELSE {})            \* a mint the history does not justify
  \cup (IF m.type \in DepTypes \cup {"ReplaceDepositForBurn"} THEN {"C05"} ELSE {})   \* a module-sender message it does not justify

Fails(pre, m, f, o)   == LET r == Run(pre, m, f) IN
                         {p \in PropIds : Applies(p, pre, m, f, o) /\ ~LensR(p, pre, m, f, o, r)}
Applied(pre, m, f, o) == {p \in PropIds : Applies(p, pre, m, f, o)}

---------------------------------------------------------------------------
(* History properties over (st, hist)                                       *)
RECURSIVE SumRecvAmt(_)
SumRecvAmt(q) == IF q = <<>> THEN 0 ELSE Head(q).amt + SumRecvAmt(Tail(q))
RECURSIVE SumOutAmt(_)
SumOutAmt(q)  == IF q = <<>> THEN 0 ELSE Head(q).msg.body.amt + SumOutAmt(Tail(q))

FreshOut(h) == SelectSeq(h.outbox, LAMBDA x : x.fresh)
DepOut(h)   == SelectSeq(h.outbox, LAMBDA x : x.type \in DepTypes)
OkRecv(h)   == SelectSeq(h.recv, LAMBDA x : x.ok)

\* C02
AtMostOnce(h)       == \A i, j \in DOMAIN h.recv : (h.recv[i].ok /\ h.recv[j].ok /\ h.recv[i].key = h.recv[j].key) => i = j
UsedJustified(s, h) == s.used \subseteq (h.genUsed \cup {OkRecv(h)[i].key : i \in DOMAIN OkRecv(h)})
RecvMarks(s, h)     == \A i \in DOMAIN OkRecv(h) : OkRecv(h)[i].key \in s.used
\* C04
TotalMinted(s, h)   == h.minted = SumRecvAmt(SelectSeq(h.recv, LAMBDA x : x.ok /\ x.mod))
\* C05
Conservation(s, h)  == /\ h.burned = SumOutAmt(DepOut(h))
                       /\ s.supply = h.supply0 + h.minted - h.burned
ModuleSenderOnlyFromDeposit(h) ==
  \A i \in DOMAIN h.outbox :
     LET x == h.outbox[i] IN
     IF x.msg.sender = ModulePadded
     THEN x.type \in DepTypes \cup {"ReplaceDepositForBurn"}
     ELSE x.msg.sender = Pad(x.by)
\* C07
NonceConsecutive(s, h) ==
  /\ \A i \in DOMAIN FreshOut(h) : FreshOut(h)[i].msg.nonce = h.start + i - 1
  /\ s.nextNonce = h.start + Len(FreshOut(h))

\* C14 along the history: a receive that was rolled back (failed, simulated, or inside a transaction that failed)
\* leaves nothing behind that could change the fate of the next attempt for the same (domain, nonce)
RetryUnaffected(pre, h, m, f, o) ==
  (m.type = "ReceiveMessage" /\ m.wire.k = "msg" /\ [d |-> m.wire.src, n |-> m.wire.nonce] \in h.rolled /\ ~DontCare(m))
     => (Run(pre, m, f).out.res = "ok" => ResOf(o) = "ok")

HistFails(s, h) ==
  {p \in {"C02", "C04", "C05", "C07"} :
     ~ CASE p = "C02" -> AtMostOnce(h) /\ UsedJustified(s, h) /\ RecvMarks(s, h)
         [] p = "C04" -> TotalMinted(s, h)
         [] p = "C05" -> Conservation(s, h) /\ ModuleSenderOnlyFromDeposit(h)
         [] p = "C07" -> NonceConsecutive(s, h)}

---------------------------------------------------------------------------
(* What TLC checks on the bounded models                                    *)

\* every edge of the specification satisfies every lens (operational = declarative)
SpecSatisfiesLenses ==
  [][Ended => Fails(st, last'.msg, last'.faults, SpecObs(st, last', st')) = {}]_vars
\* the stepwise model and the folded oracle agree
StepwiseIsRun ==
  [][Ended => LET r == Run(st, last'.msg, last'.faults) IN r.out = last' /\ r.post = st']_vars
HistoryOK == tx.pc = "idle" => HistFails(st, hist) = {}
\* C14: at a ledger call the branch differs from the committed state only as documented
MarkedBeforeMint ==
  (tx.pc = "call" /\ tx.req.fn = "Mint") =>
     LET k == [d |-> tx.msg.wire.src, n |-> tx.msg.wire.nonce] IN k \in tx.wk.used /\ k \notin st.used
ModuleAccountEmpty == tx.pc = "idle" => st.bal[MODULE_ACC] = 0
\* C11 as a lifecycle automaton
RoleLifecycle ==
  [][Ended =>
      LET m == last'.msg IN
      /\ st'.owner # st.owner =>
            (m.type = "AcceptOwner" /\ m.from = st.pending /\ st'.owner = st.pending /\ st'.pending = None)
      /\ st'.pending # st.pending =>
            \/ (m.type = "UpdateOwner" /\ m.from = st.owner /\ st'.pending = m.new /\ ValidAddr(m.new))
            \/ (m.type = "AcceptOwner" /\ m.from = st.pending /\ st'.pending = None)
      /\ \A slot \in {"attMgr", "pauser", "tokCtl"} :
            st'[slot] # st[slot] =>
              /\ m.type = (CASE slot = "attMgr" -> "UpdateAttesterManager" [] slot = "pauser" -> "UpdatePauser"
                             [] slot = "tokCtl" -> "UpdateTokenController")
              /\ m.from = st.owner /\ ValidAddr(m.new) /\ st'[slot] = m.new]_vars
ThresholdInv == ThresholdOK(st)
=============================================================================
