SPECIFICATION Spec
CONSTANTS
  MintLower = "MINT"
  Accounts <- AllAccounts
  Thorough = FALSE

INVARIANTS HistoryOK ModuleAccountEmpty ThresholdInv
PROPERTIES SpecSatisfiesLenses StepwiseIsRun VerifierIsQuorum
ACTION_CONSTRAINT EmitEdge
CHECK_DEADLOCK FALSE
