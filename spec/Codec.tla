------------------------------- MODULE Codec -------------------------------
(***************************************************************************)
(* C16: the CCTP wire layouts as a reference written from the CCTP          *)
(* technical reference, over sequences of bytes (0..255).  Numbers are      *)
(* carried as big-endian byte sequences (TLC integers are 32-bit); the      *)
(* harness converts with encoding/binary and math/big, not with module      *)
(* code.                                                                    *)
(*   Message     : version 4 | source domain 4 | destination domain 4 |     *)
(*                 nonce 8 | sender 32 | recipient 32 | destination caller  *)
(*                 32 | body ...                                (header 116)*)
(*   BurnMessage : version 4 | burn token 32 | mint recipient 32 |          *)
(*                 amount 32 | message sender 32                      (132) *)
(* and validation of vectors observed from the module's Parse / Bytes.      *)
(***************************************************************************)
EXTENDS Integers, Sequences, FiniteSets, TLC, Json, IOUtils

HeaderLen == 116
BurnLen   == 132

EncMessage(f) == f.ver \o f.src \o f.dst \o f.nonce \o f.sender \o f.rcpt \o f.caller \o f.body
MessageWellFormed(f) == /\ Len(f.ver) = 4 /\ Len(f.src) = 4 /\ Len(f.dst) = 4 /\ Len(f.nonce) = 8
                        /\ Len(f.sender) = 32 /\ Len(f.rcpt) = 32 /\ Len(f.caller) = 32
DecMessage(bz) == [ver |-> SubSeq(bz, 1, 4), src |-> SubSeq(bz, 5, 8), dst |-> SubSeq(bz, 9, 12),
                   nonce |-> SubSeq(bz, 13, 20), sender |-> SubSeq(bz, 21, 52), rcpt |-> SubSeq(bz, 53, 84),
                   caller |-> SubSeq(bz, 85, 116), body |-> SubSeq(bz, 117, Len(bz))]
MessageDecodable(bz) == Len(bz) >= HeaderLen

EncBurn(f) == f.ver \o f.tok \o f.rcpt \o f.amt \o f.sender
BurnWellFormed(f) == Len(f.ver) = 4 /\ Len(f.tok) = 32 /\ Len(f.rcpt) = 32 /\ Len(f.amt) = 32 /\ Len(f.sender) = 32
DecBurn(bz) == [ver |-> SubSeq(bz, 1, 4), tok |-> SubSeq(bz, 5, 36), rcpt |-> SubSeq(bz, 37, 68),
                amt |-> SubSeq(bz, 69, 100), sender |-> SubSeq(bz, 101, 132)]
BurnDecodable(bz) == Len(bz) = BurnLen

\* the layouts round-trip by construction (checked by TLC on a small universe, see MC_Codec.cfg)
RoundTripLaw(f) == MessageWellFormed(f) => (MessageDecodable(EncMessage(f)) /\ DecMessage(EncMessage(f)) = f)

---------------------------------------------------------------------------
(* Validation of observed vectors.  Records:                                *)
(*  {id, kind:"msg_parse",  in:[bytes], obs:{res, fields, reenc}}           *)
(*  {id, kind:"msg_bytes",  in:{fields}, obs:{res, bytes, back}}            *)
(*  {id, kind:"burn_parse", in:[bytes], obs:{res, fields, reenc}}           *)
(*  {id, kind:"burn_bytes", in:{fields}, obs:{res, bytes, back}}            *)
VARIABLES i, done
TraceFile == IF "TRACE_FILE" \in DOMAIN IOEnv THEN IOEnv.TRACE_FILE ELSE "codec.ndjson"
Rs == ndJsonDeserialize(TraceFile)

Fails(r) ==
  LET o == r.obs IN
  CASE r.kind = "msg_parse" ->
         IF ~MessageDecodable(r.in) THEN (IF o.res = "err" THEN {} ELSE {"C16:msg-parse:short-input-accepted"})
         ELSE (IF o.res # "ok" THEN {"C16:msg-parse:rejected"} ELSE
               (IF o.fields # DecMessage(r.in) THEN {"C16:msg-parse:layout"} ELSE {})
               \cup (IF o.reenc # r.in THEN {"C16:msg-parse:decode-encode"} ELSE {}))
    [] r.kind = "msg_bytes" ->
         IF ~MessageWellFormed(r.in) THEN (IF o.res = "err" THEN {} ELSE {"C16:msg-bytes:bad-field-size-accepted"})
         ELSE (IF o.res # "ok" THEN {"C16:msg-bytes:rejected"} ELSE
               (IF o.bytes # EncMessage(r.in) THEN {"C16:msg-bytes:layout"} ELSE {})
               \cup (IF o.back # r.in THEN {"C16:msg-bytes:encode-decode"} ELSE {}))
    [] r.kind = "burn_parse" ->
         IF ~BurnDecodable(r.in) THEN (IF o.res = "err" THEN {} ELSE {"C16:burn-parse:wrong-length-accepted"})
         ELSE (IF o.res # "ok" THEN {"C16:burn-parse:rejected"} ELSE
               (IF o.fields # DecBurn(r.in) THEN {"C16:burn-parse:layout"} ELSE {})
               \cup (IF o.reenc # r.in THEN {"C16:burn-parse:decode-encode"} ELSE {}))
    [] r.kind = "burn_bytes" ->
         IF ~BurnWellFormed(r.in) THEN (IF o.res = "err" THEN {} ELSE {"C16:burn-bytes:bad-field-size-accepted"})
         ELSE (IF o.res # "ok" THEN {"C16:burn-bytes:rejected"} ELSE
               (IF o.bytes # EncBurn(r.in) THEN {"C16:burn-bytes:layout"} ELSE {})
               \cup (IF o.back # r.in THEN {"C16:burn-bytes:encode-decode"} ELSE {}))

Init == i \in 1..Len(Rs) /\ done = FALSE
Next == ~done /\ done' = TRUE /\ i' = i /\ PrintT(ToJson([id |-> Rs[i].id, kind |-> Rs[i].kind, fails |-> Fails(Rs[i])]))
Spec == Init /\ [][Next]_<<i, done>>
=============================================================================
