------------------------------- MODULE CCTP -------------------------------
(***************************************************************************)
(* Specification of the noble-cctp module (x/cctp) as a sequential,        *)
(* deterministic state machine over abstract values.                        *)
(*                                                                          *)
(* Structure (see DESIGN.md 2.2):                                           *)
(*   - pure step operators per handler, checks in the code's order;         *)
(*   - the three ledger calls (bank transfer, FTF burn, FTF mint) are the   *)
(*     only interior points of a transaction: their outcome is chosen by    *)
(*     the environment;                                                     *)
(*   - Run(s, m, faults) folds the same operators over a fault schedule:    *)
(*     it is the oracle used by Trace.tla and by the edge dumps;            *)
(*   - Submit / CallLedger are the stepwise actions TLC explores.           *)
(*                                                                          *)
(* Values are symbols; the Go harness owns the symbol table.                *)
(***************************************************************************)
EXTENDS Integers, Sequences, FiniteSets, TLC

CONSTANTS Accounts,       \* user / role account symbols, e.g. {"a1","a2","a3"}
          MintLower       \* what lower-casing the minting denom yields: "MINT" when the chain's minting denom is
                          \* lower-case already (uusdc), "MINT_LOW" for a mixed-case minting denom (uUSDC)

MODULE_ACC == "MODULE"
None       == "none"
ABSENT     == -1000        \* an amount that is absent on the wire (nil math.Int)
NOBLE      == "NOBLE"      \* domain 4
MINT       == "MINT"       \* the fiat-token-factory minting denom, spelled exactly

\* every symbol that denotes a syntactically valid bech32 account address
\* ("s8": a valid address of 8 bytes, "l33": one of 33 bytes; where the module pads an address into 32 bytes it
\* copies at most 20 bytes to offset 12, so their padded forms are 8 bytes + zeros, and the first 20 bytes)
\* "p1": a valid address of 32 bytes whose first 20 bytes are a1's -- a different account (another string, another
\* ledger entry), but padded into a 32-byte field it is indistinguishable from a1
AddrSyms == Accounts \cup {MODULE_ACC, "zero", "x1", "x2", "s8", "l33", "p1"}
ValidAddr(a) == a \in AddrSyms

---------------------------------------------------------------------------
(* Byte strings.  A byte-string value is a record [n, hi, lo]:              *)
(*   n = 32 : hi describes bytes 0..11  ("z" zero, "j" fixed junk,          *)
(*            "k" = the value is keccak256 of the denom named by lo),       *)
(*            lo describes bytes 12..31 (an address symbol, "zero", or a    *)
(*            free symbol such as "t1", "m1", "r1").                        *)
(*   n # 32 : hi = "-", lo = "zero" (all bytes 0) or "junk".                *)

B(hi, lo)      == [n |-> 32, hi |-> hi, lo |-> lo]
Zero32         == B("z", "zero")
Pad(a)         == B("z", IF a = "p1" THEN "a1" ELSE a)
ModulePadded   == Pad(MODULE_ACC)
KTok(d)        == B("k", d)                 \* keccak256(<denom string d>)
Bytes(n, fill) == [n |-> n, hi |-> "-", lo |-> fill]
Empty          == Bytes(0, "zero")
IsZeroBytes(b) == b.lo = "zero" /\ b.hi \in {"z", "-"}      \* every byte is 0 (any length)
IsZero32(b)    == b.n = 32 /\ IsZeroBytes(b)

---------------------------------------------------------------------------
(* Denoms.                                                                  *)
Lower(d) == CASE d \in {"MINT", "MINT_UP", "MINT_LOW"} -> MintLower
              [] d = "OTHER_UP" -> "OTHER"
              [] OTHER          -> d          \* OTHER, MINT_FOLD, EMPTY are fixed points
FoldsToMint(d)    == d \in {"MINT", "MINT_UP", "MINT_LOW", "MINT_FOLD"}     \* strings.EqualFold with the minting denom
ValidCoinDenom(d) == d \in {"MINT", "MINT_UP", "MINT_LOW", "OTHER", "OTHER_UP"}  \* acceptable to the SDK coin type

---------------------------------------------------------------------------
(* Wire messages.                                                           *)
(*   [k |-> "short", len |-> 0..115, id]      fewer than 116 bytes          *)
(*   [k |-> "msg", ver, src, dst, nonce, sender, rcpt, caller, body]        *)
(* Bodies:                                                                  *)
(*   [k |-> "raw", len, id]                   opaque bytes                  *)
(*   [k |-> "burn", ver, tok, rcpt, amt, sender]   132-byte burn message    *)

WireMsg(ver, src, dst, nonce, sender, rcpt, caller, body) ==
  [k |-> "msg", ver |-> ver, src |-> src, dst |-> dst, nonce |-> nonce,
   sender |-> sender, rcpt |-> rcpt, caller |-> caller, body |-> body]
BurnBody(ver, tok, rcpt, amt, sender) ==
  [k |-> "burn", ver |-> ver, tok |-> tok, rcpt |-> rcpt, amt |-> amt, sender |-> sender]
BodyLen(b) == IF b.k = "raw" THEN b.len ELSE 132
\* what the burn-message decoder sees in a 132-byte body
AsBurn(b) == IF b.k = "burn" THEN b
             ELSE BurnBody(99, B("j", "junk"), B("j", "junk"), 1, B("j", "junk"))

---------------------------------------------------------------------------
(* Attestations.  att = [sigs |-> <<sig...>>, pad |-> -1..1];               *)
(* sig = [k |-> key symbol, over |-> "this"|"other", enc |-> encoding]      *)

RealKeys == {"k1", "k2", "k3", "k4", "k5", "k6", "k7", "k8"}
KeyOrd(k) == CASE k = "k1" -> 1 [] k = "k2" -> 2 [] k = "k3" -> 3 [] k = "k4" -> 4
               [] k = "k5" -> 5 [] k = "k6" -> 6 [] k = "k7" -> 7 [] k = "k8" -> 8
               [] OTHER -> 0
GoodEnc == {"v01", "v2728", "hs01", "hs2728"}      \* recoverable encodings (high-s twins recover the same key)
\* attester registry entries are [key, sp]; entries whose string is not a real key never match
EnabledKeys(atts) == {a.key : a \in {x \in atts : x.key \in RealKeys}}
SigRecovers(sg)   == sg.enc \in GoodEnc
RecKey(sg)        == IF sg.over = "this" THEN sg.k ELSE "unk"

\* operational: the verifier's loop, in code order
RECURSIVE VerifyFrom(_, _, _, _)
VerifyFrom(sigs, i, prev, keys) ==
  IF i > Len(sigs) THEN TRUE ELSE
  LET sg == sigs[i] IN
  IF ~SigRecovers(sg) THEN FALSE ELSE
  LET k == RecKey(sg) IN
  IF prev # 0 /\ KeyOrd(k) # 0 /\ KeyOrd(k) <= prev THEN FALSE ELSE   \* order / duplicate
  IF k \notin keys THEN FALSE ELSE                                     \* not an enabled attester
  VerifyFrom(sigs, i + 1, KeyOrd(k), keys)

AttestOK(atts, t, att) ==
  /\ 65 * Len(att.sigs) + att.pad = 65 * t
  /\ t # 0
  /\ VerifyFrom(att.sigs, 1, 0, EnabledKeys(atts))

\* declarative: the statement of C01
AttestDecl(atts, t, att) ==
  /\ att.pad = 0 /\ Len(att.sigs) = t /\ t >= 1
  /\ \A i \in 1..Len(att.sigs) :
        /\ SigRecovers(att.sigs[i]) /\ att.sigs[i].over = "this"
        /\ att.sigs[i].k \in EnabledKeys(atts)
  /\ \A i \in 1..(Len(att.sigs) - 1) : KeyOrd(att.sigs[i].k) < KeyOrd(att.sigs[i + 1].k)
\* number of distinct enabled signers over this message
DistinctEnabledSigners(atts, att) ==
  Cardinality({att.sigs[i].k : i \in {j \in 1..Len(att.sigs) :
      SigRecovers(att.sigs[j]) /\ att.sigs[j].over = "this" /\ att.sigs[j].k \in EnabledKeys(atts)}})

---------------------------------------------------------------------------
(* State.                                                                   *)
VARIABLES st,    \* committed chain state (module store + ledger)
          tx,    \* in-flight transaction, tx.pc = "idle" when none
          hist,  \* history / observation variable
          last   \* outputs of the transaction that just ended (hidden by VIEW)
vars == <<st, tx, hist, last>>
view == <<st, tx, hist>>

HasPair(s, d, t)  == \E p \in s.pairs : p.d = d /\ p.t = t
PairOf(s, d, t)   == CHOOSE p \in s.pairs : p.d = d /\ p.t = t
HasMsgr(s, d)     == \E x \in s.msgrs : x.d = d
MsgrOf(s, d)      == CHOOSE x \in s.msgrs : x.d = d
HasLimit(s, dn)   == \E x \in s.limits : x.denom = dn
LimitOf(s, dn)    == (CHOOSE x \in s.limits : x.denom = dn).amt
HasAttester(s, a) == a \in s.attesters

---------------------------------------------------------------------------
(* Working transaction record.                                              *)
NoReq  == [fn |-> "none"]
NoResp == [nonce |-> -1]
New(s, m) == [pc |-> "run", msg |-> m, wk |-> s, calls |-> <<>>, evs |-> <<>>,
              resp |-> NoResp, res |-> "none", req |-> NoReq, faults |-> <<>>]
Fail(t)    == [t EXCEPT !.pc = "done", !.res = "err"]
Ok(t)      == [t EXCEPT !.pc = "done", !.res = "ok"]
Failed(t)  == t.res = "err"
Emit(t, e) == [t EXCEPT !.evs = Append(@, e)]

---------------------------------------------------------------------------
(* Shared send path (keeper.sendMessage + Message.Bytes).                   *)
SendInner(t, dst, rcpt, caller, sender, nonce, body) ==
  IF t.wk.pausedSR                          THEN Fail(t) ELSE
  IF BodyLen(body) > t.wk.maxBody           THEN Fail(t) ELSE
  IF rcpt.n = 0 \/ IsZeroBytes(rcpt)        THEN Fail(t) ELSE
  IF sender.n # 32 \/ rcpt.n # 32 \/ caller.n # 32 THEN Fail(t) ELSE
  Emit(t, [e |-> "MessageSent", msg |-> WireMsg(0, NOBLE, dst, nonce, sender, rcpt, caller, body)])

\* reserve-and-increment, then the shared send path (SendMessage / SendMessageWithCaller bodies)
SendAs(t, from, dst, rcpt, caller, body) ==
  LET n  == t.wk.nextNonce
      t1 == [t EXCEPT !.wk.nextNonce = n + 1, !.resp = [nonce |-> n]]
  IN  SendInner(t1, dst, rcpt, caller, Pad(from), n, body)

HSend(s, m) ==
  LET t0 == New(s, m) IN
  IF ~ValidAddr(m.from) THEN Fail(t0) ELSE
  LET t1 == SendAs(t0, m.from, m.dst, m.rcpt, Zero32, m.body) IN
  IF Failed(t1) THEN t1 ELSE Ok(t1)

SendWithCallerAs(t, from, dst, rcpt, caller, body) ==
  IF ~ValidAddr(from)                     THEN Fail(t) ELSE
  IF caller.n # 32 \/ IsZero32(caller)    THEN Fail(t) ELSE
  SendAs(t, from, dst, rcpt, caller, body)

HSendC(s, m) ==
  LET t1 == SendWithCallerAs(New(s, m), m.from, m.dst, m.rcpt, m.caller, m.body) IN
  IF Failed(t1) THEN t1 ELSE Ok(t1)

---------------------------------------------------------------------------
(* Deposits.                                                                *)
IsDepC(m) == m.type = "DepositForBurnWithCaller"

DepBegin(s, m) ==
  LET t0 == New(s, m) IN
  IF IsDepC(m) /\ (m.caller.n = 0 \/ IsZero32(m.caller))              THEN Fail(t0) ELSE
  IF ~ValidAddr(m.from)                                               THEN Fail(t0) ELSE
  IF m.amt = ABSENT \/ m.amt <= 0                                     THEN Fail(t0) ELSE
  IF m.mrcpt.n = 0 \/ IsZero32(m.mrcpt)                               THEN Fail(t0) ELSE
  IF ~HasMsgr(s, m.dst)                                               THEN Fail(t0) ELSE
  IF ~FoldsToMint(m.tok)                                              THEN Fail(t0) ELSE
  IF ~ValidCoinDenom(m.tok)                                           THEN Fail(t0) ELSE
  IF s.pausedBM                                                       THEN Fail(t0) ELSE
  IF HasLimit(s, Lower(m.tok)) /\ m.amt > LimitOf(s, Lower(m.tok))    THEN Fail(t0) ELSE
  [t0 EXCEPT !.pc = "call", !.req = [fn |-> "Transfer", from |-> m.from, to |-> MODULE_ACC,
                                      denom |-> m.tok, amt |-> m.amt]]

\* after the burn: body encoding, inner send, event
DepFinish(t) ==
  LET m    == t.msg
      msgr == MsgrOf(t.wk, m.dst).addr
      body == BurnBody(0, KTok(Lower(m.tok)), m.mrcpt, m.amt, Pad(m.from)) IN
  IF m.mrcpt.n # 32 THEN Fail(t) ELSE
  LET t1 == IF IsDepC(m)
            THEN SendWithCallerAs(t, MODULE_ACC, m.dst, msgr, m.caller, body)
            ELSE SendAs(t, MODULE_ACC, m.dst, msgr, Zero32, body) IN
  IF Failed(t1) THEN t1 ELSE
  Ok(Emit(t1, [e |-> "DepositForBurn", nonce |-> t1.resp.nonce, tok |-> KTok(m.tok), amt |-> m.amt,
               depositor |-> m.from, mrcpt |-> m.mrcpt, dst |-> m.dst, msgr |-> msgr,
               caller |-> IF IsDepC(m) THEN m.caller ELSE Empty]))

---------------------------------------------------------------------------
(* Receive.                                                                 *)
RecvEvent(m, w) == [e |-> "MessageReceived", caller |-> m.from, src |-> w.src, nonce |-> w.nonce,
                    sender |-> w.sender, body |-> w.body]

RecvBegin(s, m) ==
  LET t0 == New(s, m)
      w  == m.wire IN
  IF s.pausedSR                                          THEN Fail(t0) ELSE
  IF s.attesters = {}                                    THEN Fail(t0) ELSE
  IF ~AttestOK(s.attesters, s.threshold, m.att)          THEN Fail(t0) ELSE
  IF w.k = "short"                                       THEN Fail(t0) ELSE
  IF w.dst # NOBLE                                       THEN Fail(t0) ELSE
  IF ~IsZero32(w.caller) /\ w.caller.lo # m.from         THEN Fail(t0) ELSE
  IF w.ver # 0                                           THEN Fail(t0) ELSE
  IF [d |-> w.src, n |-> w.nonce] \in s.used             THEN Fail(t0) ELSE
  LET t1 == [t0 EXCEPT !.wk.used = @ \cup {[d |-> w.src, n |-> w.nonce]}] IN   \* marked BEFORE body checks
  IF w.rcpt # ModulePadded                               THEN Ok(Emit(t1, RecvEvent(m, w))) ELSE
  IF s.pausedBM                                          THEN Fail(t1) ELSE
  IF BodyLen(w.body) # 132                               THEN Fail(t1) ELSE
  LET b == AsBurn(w.body) IN
  IF b.ver # 0                                           THEN Fail(t1) ELSE
  IF ~HasPair(s, w.src, b.tok)                           THEN Fail(t1) ELSE
  IF ~HasMsgr(s, w.src)                                  THEN Fail(t1) ELSE
  IF w.sender # MsgrOf(s, w.src).addr                    THEN Fail(t1) ELSE
  [t1 EXCEPT !.pc = "call", !.req = [fn |-> "Mint", from |-> MODULE_ACC, to |-> b.rcpt.lo,
                                      denom |-> Lower(PairOf(s, w.src, b.tok).denom), amt |-> b.amt]]

RecvFinish(t) ==
  LET m == t.msg
      w == m.wire
      b == AsBurn(w.body)
      t1 == Emit(t, [e |-> "MintAndWithdraw", rcpt |-> b.rcpt, amt |-> b.amt,
                     denom |-> Lower(PairOf(t.wk, w.src, b.tok).denom)]) IN
  Ok(Emit(t1, RecvEvent(m, w)))

---------------------------------------------------------------------------
(* The ledger's answer to a pending request; env = the environment lets it  *)
(* succeed.  Deterministic refusals are those of the bank and of the pinned *)
(* fiat-token-factory: insufficient funds, wrong denom, non-positive amount *)
LedgerOk(s, r, env) ==
  CASE r.fn = "Transfer" -> env /\ r.denom = MINT /\ r.amt > 0 /\ s.bal[r.from] >= r.amt
    [] r.fn = "Burn"     -> env /\ r.from = MODULE_ACC /\ r.denom = MINT /\ r.amt > 0 /\ s.bal[MODULE_ACC] >= r.amt
    [] r.fn = "Mint"     -> env /\ r.from = MODULE_ACC /\ r.denom = MINT /\ r.amt > 0

LedgerApply(s, r) ==
  CASE r.fn = "Transfer" -> [s EXCEPT !.bal[r.from] = @ - r.amt, !.bal[r.to] = @ + r.amt]
    [] r.fn = "Burn"     -> [s EXCEPT !.bal[r.from] = @ - r.amt, !.supply = @ - r.amt]
    [] r.fn = "Mint"     -> [s EXCEPT !.bal[r.to] = @ + r.amt, !.supply = @ + r.amt]

LedgerCall(t, env) ==
  LET r  == t.req
      ok == LedgerOk(t.wk, r, env)
      t1 == [t EXCEPT !.calls = Append(@, [fn |-> r.fn, from |-> r.from, to |-> r.to, denom |-> r.denom,
                                           amt |-> r.amt, ok |-> ok]),
                      !.faults = Append(@, env)] IN
  IF ~ok THEN Fail(t1) ELSE
  LET t2 == [t1 EXCEPT !.wk = LedgerApply(t1.wk, r), !.req = NoReq] IN
  CASE r.fn = "Transfer" -> [t2 EXCEPT !.req = [fn |-> "Burn", from |-> MODULE_ACC, to |-> "none",
                                                 denom |-> r.denom, amt |-> r.amt]]   \* pc stays "call"
    [] r.fn = "Burn"     -> DepFinish([t2 EXCEPT !.pc = "run"])
    [] r.fn = "Mint"     -> RecvFinish([t2 EXCEPT !.pc = "run"])

---------------------------------------------------------------------------
(* Replacements.                                                            *)
ReplInner(t, from, orig, att, newBody, newCaller) ==
  LET s == t.wk IN
  IF s.pausedSR                                   THEN Fail(t) ELSE
  IF ~AttestOK(s.attesters, s.threshold, att)     THEN Fail(t) ELSE
  IF orig.k = "short"                             THEN Fail(t) ELSE
  IF ~ValidAddr(from)                             THEN Fail(t) ELSE
  IF Pad(from) # orig.sender                      THEN Fail(t) ELSE
  IF orig.src # NOBLE                             THEN Fail(t) ELSE
  SendInner(t, orig.dst, orig.rcpt, newCaller, orig.sender, orig.nonce, newBody)

HReplace(s, m) ==
  LET t1 == ReplInner(New(s, m), m.from, m.orig, m.att, m.body, m.caller) IN
  IF Failed(t1) THEN t1 ELSE Ok(t1)

HReplDep(s, m) ==
  LET t0 == New(s, m)
      o  == m.orig IN
  IF s.pausedBM                                   THEN Fail(t0) ELSE
  IF o.k = "short"                                THEN Fail(t0) ELSE
  IF BodyLen(o.body) # 132                        THEN Fail(t0) ELSE
  LET b == AsBurn(o.body) IN
  IF ~ValidAddr(m.from)                           THEN Fail(t0) ELSE
  IF Pad(m.from) # b.sender                       THEN Fail(t0) ELSE
  IF IsZero32(m.mrcpt)                            THEN Fail(t0) ELSE
  IF m.mrcpt.n # 32                               THEN Fail(t0) ELSE
  LET nb == BurnBody(b.ver, b.tok, m.mrcpt, b.amt, b.sender)
      t1 == ReplInner(t0, MODULE_ACC, o, m.att, nb, m.caller) IN
  IF Failed(t1) THEN t1 ELSE
  \* intended behaviour: the event names the burn token that is in the message
  Ok(Emit(t1, [e |-> "DepositForBurn", nonce |-> o.nonce, tok |-> b.tok, amt |-> b.amt,
               depositor |-> m.from, mrcpt |-> m.mrcpt, dst |-> o.dst, msgr |-> o.rcpt,
               caller |-> m.caller]))

---------------------------------------------------------------------------
(* Administrative handlers.                                                 *)
HUpdateOwner(s, m) ==
  LET t0 == New(s, m) IN
  IF m.from # s.owner     THEN Fail(t0) ELSE
  IF ~ValidAddr(m.new)    THEN Fail(t0) ELSE
  Ok(Emit([t0 EXCEPT !.wk.pending = m.new],
          [e |-> "OwnershipTransferStarted", prev |-> s.owner, new |-> m.new]))

HAcceptOwner(s, m) ==
  LET t0 == New(s, m) IN
  IF s.pending = None     THEN Fail(t0) ELSE
  IF s.pending # m.from   THEN Fail(t0) ELSE
  Ok(Emit([t0 EXCEPT !.wk.owner = s.pending, !.wk.pending = None],
          [e |-> "OwnerUpdated", prev |-> s.owner, new |-> s.pending]))

HUpdateRole(s, m, slot, evName) ==
  LET t0 == New(s, m) IN
  IF m.from # s.owner     THEN Fail(t0) ELSE
  IF ~ValidAddr(m.new)    THEN Fail(t0) ELSE
  Ok(Emit([t0 EXCEPT !.wk[slot] = m.new], [e |-> evName, prev |-> s[slot], new |-> m.new]))

HUpdateMaxBody(s, m) ==
  LET t0 == New(s, m) IN
  IF m.from # s.owner     THEN Fail(t0) ELSE
  Ok(Emit([t0 EXCEPT !.wk.maxBody = m.size], [e |-> "MaxMessageBodySizeUpdated", size |-> m.size]))

HAddMsgr(s, m) ==
  LET t0 == New(s, m) IN
  IF m.from # s.owner     THEN Fail(t0) ELSE
  IF HasMsgr(s, m.d)      THEN Fail(t0) ELSE
  IF m.addr.n # 32        THEN Fail(t0) ELSE
  Ok(Emit([t0 EXCEPT !.wk.msgrs = @ \cup {[d |-> m.d, addr |-> m.addr]}],
          [e |-> "RemoteTokenMessengerAdded", d |-> m.d, addr |-> m.addr]))

HRemoveMsgr(s, m) ==
  LET t0 == New(s, m) IN
  IF m.from # s.owner     THEN Fail(t0) ELSE
  IF ~HasMsgr(s, m.d)     THEN Fail(t0) ELSE
  Ok(Emit([t0 EXCEPT !.wk.msgrs = @ \ {MsgrOf(s, m.d)}],
          [e |-> "RemoteTokenMessengerRemoved", d |-> m.d, addr |-> MsgrOf(s, m.d).addr]))

\* an attester string is usable iff it hex-decodes to at least one byte
UsableAttester(a) == a.sp \notin {"empty", "0xonly", "nothex"}

HEnableAttester(s, m) ==
  LET t0 == New(s, m) IN
  IF m.from # s.attMgr        THEN Fail(t0) ELSE
  IF ~UsableAttester(m.att)   THEN Fail(t0) ELSE
  IF HasAttester(s, m.att)    THEN Fail(t0) ELSE
  Ok(Emit([t0 EXCEPT !.wk.attesters = @ \cup {m.att}], [e |-> "AttesterEnabled", att |-> m.att]))

HDisableAttester(s, m) ==
  LET t0 == New(s, m) IN
  IF m.from # s.attMgr                          THEN Fail(t0) ELSE
  IF ~UsableAttester(m.att)                     THEN Fail(t0) ELSE
  IF ~HasAttester(s, m.att)                     THEN Fail(t0) ELSE
  IF Cardinality(s.attesters) = 1               THEN Fail(t0) ELSE
  IF Cardinality(s.attesters) <= s.threshold    THEN Fail(t0) ELSE
  Ok(Emit([t0 EXCEPT !.wk.attesters = @ \ {m.att}], [e |-> "AttesterDisabled", att |-> m.att]))

HUpdateThreshold(s, m) ==
  LET t0 == New(s, m) IN
  IF m.from # s.attMgr                          THEN Fail(t0) ELSE
  IF m.amt = 0                                  THEN Fail(t0) ELSE
  IF m.amt = s.threshold                        THEN Fail(t0) ELSE
  IF m.amt > Cardinality(s.attesters)           THEN Fail(t0) ELSE
  Ok(Emit([t0 EXCEPT !.wk.threshold = m.amt],
          [e |-> "SignatureThresholdUpdated", old |-> s.threshold, new |-> m.amt]))

HPause(s, m, flag, val, evName) ==
  LET t0 == New(s, m) IN
  IF m.from # s.pauser    THEN Fail(t0) ELSE
  Ok(Emit([t0 EXCEPT !.wk[flag] = val], [e |-> evName]))

HLink(s, m) ==
  LET t0 == New(s, m) IN
  IF m.from # s.tokCtl        THEN Fail(t0) ELSE
  IF m.tok.n # 32             THEN Fail(t0) ELSE
  IF HasPair(s, m.d, m.tok)   THEN Fail(t0) ELSE
  Ok(Emit([t0 EXCEPT !.wk.pairs = @ \cup {[d |-> m.d, t |-> m.tok, denom |-> Lower(m.denom)]}],
          [e |-> "TokenPairLinked", denom |-> Lower(m.denom), d |-> m.d, t |-> m.tok]))

HUnlink(s, m) ==
  LET t0 == New(s, m) IN
  IF m.from # s.tokCtl        THEN Fail(t0) ELSE
  IF m.tok.n # 32             THEN Fail(t0) ELSE
  IF ~HasPair(s, m.d, m.tok)  THEN Fail(t0) ELSE
  Ok(Emit([t0 EXCEPT !.wk.pairs = @ \ {PairOf(s, m.d, m.tok)}],
          [e |-> "TokenPairUnlinked", denom |-> PairOf(s, m.d, m.tok).denom, d |-> m.d, t |-> m.tok]))

StoredAmt(a) == IF a = ABSENT THEN 0 ELSE a       \* an absent amount is stored as 0
HSetLimit(s, m) ==
  LET t0 == New(s, m)
      dn == Lower(m.denom) IN
  IF m.from # s.tokCtl        THEN Fail(t0) ELSE
  Ok(Emit([t0 EXCEPT !.wk.limits = {x \in @ : x.denom # dn} \cup {[denom |-> dn, amt |-> StoredAmt(m.amt)]}],
          [e |-> "SetBurnLimitPerMessage", denom |-> dn, amt |-> StoredAmt(m.amt)]))

---------------------------------------------------------------------------
(* Dispatch.                                                                *)
UserTypes    == {"SendMessage", "SendMessageWithCaller", "DepositForBurn", "DepositForBurnWithCaller",
                 "ReceiveMessage", "ReplaceMessage", "ReplaceDepositForBurn"}
OwnerTypes   == {"UpdateOwner", "UpdateAttesterManager", "UpdatePauser", "UpdateTokenController",
                 "UpdateMaxMessageBodySize", "AddRemoteTokenMessenger", "RemoveRemoteTokenMessenger"}
AttMgrTypes  == {"EnableAttester", "DisableAttester", "UpdateSignatureThreshold"}
PauserTypes  == {"PauseBurningAndMinting", "UnpauseBurningAndMinting",
                 "PauseSendingAndReceivingMessages", "UnpauseSendingAndReceivingMessages"}
TokCtlTypes  == {"LinkTokenPair", "UnlinkTokenPair", "SetMaxBurnAmountPerMessage"}
PrivTypes    == OwnerTypes \cup AttMgrTypes \cup PauserTypes \cup TokCtlTypes \cup {"AcceptOwner"}
AllTypes     == UserTypes \cup PrivTypes

BeginOp(s, m) ==
  CASE m.type = "SendMessage"                 -> HSend(s, m)
    [] m.type = "SendMessageWithCaller"       -> HSendC(s, m)
    [] m.type \in {"DepositForBurn", "DepositForBurnWithCaller"} -> DepBegin(s, m)
    [] m.type = "ReceiveMessage"              -> RecvBegin(s, m)
    [] m.type = "ReplaceMessage"              -> HReplace(s, m)
    [] m.type = "ReplaceDepositForBurn"       -> HReplDep(s, m)
    [] m.type = "UpdateOwner"                 -> HUpdateOwner(s, m)
    [] m.type = "AcceptOwner"                 -> HAcceptOwner(s, m)
    [] m.type = "UpdateAttesterManager"       -> HUpdateRole(s, m, "attMgr", "AttesterManagerUpdated")
    [] m.type = "UpdatePauser"                -> HUpdateRole(s, m, "pauser", "PauserUpdated")
    [] m.type = "UpdateTokenController"       -> HUpdateRole(s, m, "tokCtl", "TokenControllerUpdated")
    [] m.type = "UpdateMaxMessageBodySize"    -> HUpdateMaxBody(s, m)
    [] m.type = "AddRemoteTokenMessenger"     -> HAddMsgr(s, m)
    [] m.type = "RemoveRemoteTokenMessenger"  -> HRemoveMsgr(s, m)
    [] m.type = "EnableAttester"              -> HEnableAttester(s, m)
    [] m.type = "DisableAttester"             -> HDisableAttester(s, m)
    [] m.type = "UpdateSignatureThreshold"    -> HUpdateThreshold(s, m)
    [] m.type = "PauseBurningAndMinting"      -> HPause(s, m, "pausedBM", TRUE,  "BurningAndMintingPausedEvent")
    [] m.type = "UnpauseBurningAndMinting"    -> HPause(s, m, "pausedBM", FALSE, "BurningAndMintingUnpausedEvent")
    [] m.type = "PauseSendingAndReceivingMessages"   -> HPause(s, m, "pausedSR", TRUE,  "SendingAndReceivingPausedEvent")
    [] m.type = "UnpauseSendingAndReceivingMessages" -> HPause(s, m, "pausedSR", FALSE, "SendingAndReceivingUnpausedEvent")
    [] m.type = "LinkTokenPair"               -> HLink(s, m)
    [] m.type = "UnlinkTokenPair"             -> HUnlink(s, m)
    [] m.type = "SetMaxBurnAmountPerMessage"  -> HSetLimit(s, m)

\* what the SDK does with the branch, and what the outside world sees
Commit(s, t) == IF t.res = "ok" THEN t.wk ELSE s
Out(t) == [msg |-> t.msg, faults |-> t.faults, res |-> t.res,
           resp  |-> IF t.res = "ok" THEN t.resp ELSE NoResp,
           calls |-> t.calls,                                  \* requests are observed even if rolled back
           evs   |-> IF t.res = "ok" THEN t.evs ELSE <<>>]

\* the same operators folded over a fault schedule (a sequence of booleans, one per ledger call)
FaultAt(f, i) == IF i <= Len(f) THEN f[i] ELSE TRUE
RunT(s, m, f) ==
  LET t0 == BeginOp(s, m)
      t1 == IF t0.pc = "call" THEN LedgerCall(t0, FaultAt(f, 1)) ELSE t0
      t2 == IF t1.pc = "call" THEN LedgerCall(t1, FaultAt(f, 2)) ELSE t1
  IN  t2

(* A transaction may carry several messages: [type |-> "Batch", msgs |-> <<m1, ..., mk>>].  They run in order  *)
(* on ONE branch of the store; the first failure fails the whole transaction and everything is discarded.      *)
RECURSIVE BatchFold(_, _, _, _)
BatchFold(cur, ms, f, acc) ==
  IF ms = <<>> THEN [ok |-> TRUE, st |-> cur, acc |-> acc]
  ELSE LET t    == RunT(cur, Head(ms), f)
           acc2 == [calls |-> acc.calls \o t.calls, faults |-> acc.faults \o t.faults,
                    evs |-> acc.evs \o (IF t.res = "ok" THEN t.evs ELSE <<>>),
                    outs |-> Append(acc.outs, Out(t))]
       IN  IF t.res # "ok" THEN [ok |-> FALSE, st |-> cur, acc |-> acc2]
           ELSE BatchFold(t.wk, Tail(ms), SubSeq(f, Len(t.calls) + 1, Len(f)), acc2)

RunBatch(s, m, f) ==
  LET b == BatchFold(s, m.msgs, f, [calls |-> <<>>, faults |-> <<>>, evs |-> <<>>, outs |-> <<>>]) IN
  [out  |-> [msg |-> m, faults |-> b.acc.faults, res |-> IF b.ok THEN "ok" ELSE "err", resp |-> NoResp,
             calls |-> b.acc.calls, evs |-> IF b.ok THEN b.acc.evs ELSE <<>>, inner |-> b.acc.outs],
   post |-> IF b.ok THEN b.st ELSE s]

(* [type |-> "Simulate", tx |-> m] : the node executes transaction m on a branch that is ALWAYS discarded (gas   *)
(* simulation, CheckTx).  The caller learns the outcome; the chain state, by construction, does not change.       *)
RunSimulate(s, m, f) ==
  LET r == IF m.tx.type = "Batch" THEN RunBatch(s, m.tx, f).out ELSE Out(RunT(s, m.tx, f)) IN
  [out |-> [msg |-> m, faults |-> r.faults, res |-> r.res, resp |-> r.resp, calls |-> r.calls, evs |-> r.evs], post |-> s]

Run(s, m, f) ==
  IF m.type = "Simulate" THEN RunSimulate(s, m, f) ELSE
  IF m.type = "Batch" THEN LET r == RunBatch(s, m, f) IN [out |-> r.out, post |-> r.post]
  ELSE LET t == RunT(s, m, f) IN [out |-> Out(t), post |-> Commit(s, t)]

---------------------------------------------------------------------------
(* History variable.                                                        *)
HistInit(s) == [outbox |-> <<>>,      \* [msg, by, type, fresh] per emitted MessageSent, in order
                recv   |-> <<>>,      \* [key, ok, mod] per receive attempt
                rolled |-> {},        \* keys of receives that failed or were discarded (rolled back)
                minted |-> 0, burned |-> 0,
                steps  |-> 0, start  |-> s.nextNonce, genUsed |-> s.used,
                supply0 |-> s.supply]

SentOf(o) == SelectSeq(o.evs, LAMBDA e : e.e = "MessageSent")
SumAmt(calls, fn) ==
  LET idx == {i \in DOMAIN calls : calls[i].fn = fn /\ calls[i].ok} IN
  IF idx = {} THEN 0
  ELSE LET RECURSIVE S(_) S(I) == IF I = {} THEN 0 ELSE LET i == CHOOSE i \in I : TRUE IN calls[i].amt + S(I \ {i})
       IN S(idx)

HistExtend1(h, o) ==
  LET m     == o.msg
      fresh == m.type \in {"SendMessage", "SendMessageWithCaller", "DepositForBurn", "DepositForBurnWithCaller"}
      sent  == SentOf(o)
      h1    == IF o.res = "ok" /\ Len(sent) > 0
               THEN [h EXCEPT !.outbox = Append(@, [msg |-> sent[1].msg, by |-> m.from, type |-> m.type, fresh |-> fresh])]
               ELSE h
      h2    == IF m.type = "ReceiveMessage" /\ m.wire.k = "msg"
               THEN [h1 EXCEPT !.rolled = IF o.res = "ok" THEN @ ELSE @ \cup {[d |-> m.wire.src, n |-> m.wire.nonce]},
                               !.recv = Append(@, [key |-> [d |-> m.wire.src, n |-> m.wire.nonce],
                                                   ok |-> o.res = "ok", mod |-> m.wire.rcpt = ModulePadded,
                                                   amt |-> IF m.wire.rcpt = ModulePadded /\ m.wire.body.k = "burn"
                                                           THEN m.wire.body.amt ELSE 0])]
               ELSE h1
      h3    == [h2 EXCEPT !.steps = @ + 1]
  IN  IF o.res = "ok"
      THEN [h3 EXCEPT !.minted = @ + SumAmt(o.calls, "Mint"), !.burned = @ + SumAmt(o.calls, "Burn")]
      ELSE h3

\* a batch that succeeded extends the history by each of its messages; one that failed only counts as a step
\* (inner outputs are re-derived from the observed events: each inner message contributes its MessageSent /
\* ledger calls in order, which is all the history predicates read)
RECURSIVE HistFoldOuts(_, _)
HistFoldOuts(h, outs) == IF outs = <<>> THEN h ELSE HistFoldOuts([HistExtend1(h, Head(outs)) EXCEPT !.steps = h.steps], Tail(outs))
RecvKeysOf(m) ==       \* the (domain, nonce) keys that the receives inside a transaction name
  CASE m.type = "ReceiveMessage" -> IF m.wire.k = "msg" THEN {[d |-> m.wire.src, n |-> m.wire.nonce]} ELSE {}
    [] m.type = "Batch"          -> UNION {IF m.msgs[i].type = "ReceiveMessage" /\ m.msgs[i].wire.k = "msg"
                                           THEN {[d |-> m.msgs[i].wire.src, n |-> m.msgs[i].wire.nonce]} ELSE {} : i \in DOMAIN m.msgs}
    [] OTHER                     -> {}
HistExtend(h, o) ==
  IF o.msg.type = "Simulate"          \* a simulation leaves no trace (its receives count as rolled back)
  THEN [h EXCEPT !.steps = @ + 1, !.rolled = @ \cup RecvKeysOf(o.msg.tx)] ELSE
  IF o.msg.type # "Batch" THEN HistExtend1(h, o)
  ELSE IF o.res # "ok" THEN [h EXCEPT !.steps = @ + 1, !.rolled = @ \cup RecvKeysOf(o.msg)]
  ELSE [HistFoldOuts(h, o.inner) EXCEPT !.steps = h.steps + 1]

---------------------------------------------------------------------------
(* Stepwise actions.                                                        *)
Idle == [pc |-> "idle"]

Finish(t) ==
  IF t.pc = "done"
  THEN /\ st'   = Commit(st, t)
       /\ last' = Out(t)
       /\ hist' = HistExtend(hist, Out(t))
       /\ tx'   = Idle
  ELSE /\ tx' = t
       /\ UNCHANGED <<st, hist, last>>

Submit(m)       == tx.pc = "idle" /\ Finish(BeginOp(st, m))
CallLedger(env) == tx.pc = "call" /\ Finish(LedgerCall(tx, env))

\* In an action property [][Ended => P]_vars : a non-stuttering step with tx'.pc = "idle" is the step
\* on which a transaction ends; st is its pre-state, st' its post-state and last' its outputs.
Ended      == tx'.pc = "idle"
EndedOf(T) == Ended /\ last'.msg.type \in T
NoLast     == [msg |-> [type |-> "none", from |-> "none"], faults |-> <<>>, res |-> "none", resp |-> NoResp,
               calls |-> <<>>, evs |-> <<>>]

=============================================================================
