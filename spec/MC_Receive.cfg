SPECIFICATION Spec
CONSTANTS
  MintLower = "MINT"
  Accounts <- AllAccounts
  Thorough = FALSE

INVARIANTS HistoryOK ModuleAccountEmpty ThresholdInv MarkedBeforeMint
PROPERTIES SpecSatisfiesLenses StepwiseIsRun ReceiveAcceptIff MintExact RollbackExact
ACTION_CONSTRAINT EmitEdge
CHECK_DEADLOCK FALSE
