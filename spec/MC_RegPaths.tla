---------------------------- MODULE MC_RegPaths ----------------------------
(* C19 / C15 / C02 over HISTORIES: sequences of registry transactions over  *)
(* neighbouring and case-variant keys and of receives that consume nonces   *)
(* (zero-valued domain and nonce among them), replayed with all 19 queries  *)
(* issued after every transaction.                                          *)
EXTENDS MCPaths

Start == [BaseState EXCEPT !.pairs = {}, !.msgrs = {[d |-> "d2", addr |-> M2]}, !.limits = {}, !.used = {[d |-> "d1", n |-> 7]}]

Recv(s, d, n) == [type |-> "ReceiveMessage", from |-> "a1", wire |-> WireMsg(0, d, NOBLE, n, B("j", "x2"), R1, Zero32, Raw(1, 20)), att |-> HonestAtt(s)]
Msgs(s) ==
       [type : {"LinkTokenPair"}, from : {"a1"}, d : {"d1", "d2"}, tok : {T1}, denom : {MINT}]
  \cup [type : {"LinkTokenPair"}, from : {"a1"}, d : {"d1"}, tok : {T2}, denom : {"MINT_UP"}]
  \cup [type : {"UnlinkTokenPair"}, from : {"a1"}, d : {"d1"}, tok : {T1, T2}]
  \cup [type : {"AddRemoteTokenMessenger"}, from : {"a1"}, d : {"d1"}, addr : {M1}]
  \cup [type : {"RemoveRemoteTokenMessenger"}, from : {"a1"}, d : {"d1", "d2"}]
  \cup [type : {"SetMaxBurnAmountPerMessage"}, from : {"a1"}, denom : {MINT, "MINT_UP", "OTHER"}, amt : {3}]
  \cup {Recv(s, "d1", 0), Recv(s, "d2", 0), Recv(s, "d5", 5), Recv(s, "d1", 1000)}
  \cup [type : {"AddRemoteTokenMessenger"}, from : {"a1"}, d : {"d4"}, addr : {M2}]
Depth == IF Thorough THEN 4 ELSE 3

Init == PInit(Start)
Next == (\E m \in Msgs(st) : PStep(m, Depth)) \/ PDone(Start, Depth)
Spec == Init /\ [][Next]_pvars
=============================================================================
