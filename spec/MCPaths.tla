------------------------------ MODULE MCPaths ------------------------------
(* Shared shape of the PATH models: TLC enumerates every sequence (bounded  *)
(* length) of transactions from a start state -- the path is part of the    *)
(* state, so distinct paths are distinct states -- and prints each maximal  *)
(* path once as a JSON history {init, events}.  The harness replays every   *)
(* history from genesis on one keeper instance, Trace.tla judges every      *)
(* event: what a transaction left behind, in the store or anywhere else,    *)
(* meets the transactions that follow it.                                   *)
EXTENDS MCBase

VARIABLE trace
pvars == <<st, tx, hist, last, trace>>

PInit(Start) == InitOver({Start}) /\ trace = <<>>
\* one transaction with a given ledger fault schedule (<<>> = the ledger cooperates)
PStepF(m, f, Depth) ==
  /\ tx.pc = "idle" /\ Len(trace) < Depth
  /\ LET r == Run(st, m, f) IN
     /\ st' = r.post /\ last' = r.out /\ hist' = HistExtend(hist, r.out) /\ tx' = Idle
     /\ trace' = Append(trace, [msg |-> m, faults |-> f])
PStep(m, Depth) == PStepF(m, <<>>, Depth)
PDone(Start, Depth) ==
  /\ Len(trace) = Depth
  /\ PrintT(ToJson([init |-> Start, events |-> trace]))
  /\ trace' = Append(trace, [msg |-> [type |-> "done"], faults |-> <<>>]) /\ UNCHANGED vars     \* (length Depth+1: printed)

Failing == [type |-> "AcceptOwner", from |-> "x1"]          \* a message that is always refused
Sim(m)  == [type |-> "Simulate", tx |-> m]                   \* executed on a branch that is discarded
Bat(m)  == [type |-> "Batch", msgs |-> <<m, Failing>>]       \* ditto: the second message fails
=============================================================================
