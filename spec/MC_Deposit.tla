----------------------------- MODULE MC_Deposit -----------------------------
(* C08 / C14 / C05 / C06 (per transaction): the product of the deposit      *)
(* preconditions.  States vary flags, token messenger (absent / good / all  *)
(* zero), per-message limit (absent, 0, 1, 2), maximum body size around 132 *)
(* and the depositor's balance; messages vary amount (absent, negative, 0,  *)
(* around every limit), mint recipient, burn token, destination and caller; *)
(* every ledger call may fail.  Late failures after the burn (send side     *)
(* paused, body too large, zero messenger, malformed caller, short          *)
(* recipient) are part of the product.                                      *)
EXTENDS MCBase

MsgrSets  == {{}, {[d |-> "d1", addr |-> M1]}, {[d |-> "d1", addr |-> Zero32]}}
\* limits live under the lower-cased denom (that is where SetMaxBurnAmountPerMessage puts them)
LK == MintLower
LimitSets == IF Thorough THEN {{}, {[denom |-> LK, amt |-> 0]}, {[denom |-> LK, amt |-> 1]}, {[denom |-> LK, amt |-> 2]},
                               {[denom |-> "OTHER", amt |-> 0]}, {[denom |-> LK, amt |-> -1]}}
                         ELSE {{}, {[denom |-> LK, amt |-> 1]}, {[denom |-> LK, amt |-> 2]}}
MaxBodies == IF Thorough THEN {0, 131, 132, 133, 3000000} ELSE {131, 132, 3000000}     \* (3000000 stands for 2^32)
Balances  == IF Thorough THEN {0, 1, 3} ELSE {0, 3}
Flags     == IF Thorough THEN BOOLEAN \X BOOLEAN ELSE {<<FALSE, FALSE>>, <<TRUE, FALSE>>, <<FALSE, TRUE>>}

MCInit == {[BaseState EXCEPT !.pausedBM = fl[1], !.pausedSR = fl[2], !.msgrs = ms, !.limits = lm, !.maxBody = mb,
                             !.bal = [@ EXCEPT !["a1"] = b], !.supply = 4 + b] :
             fl \in Flags, ms \in MsgrSets, lm \in LimitSets, mb \in MaxBodies, b \in Balances}

Amts    == IF Thorough THEN {ABSENT, -1, 0, 1, 2, 3} ELSE {ABSENT, 0, 1, 2, 3}
MRcpts  == IF Thorough THEN {B("j", "x1"), Pad("a2"), Zero32, Empty, Bytes(31, "junk"), Bytes(31, "zero"), Bytes(33, "junk")}
                       ELSE {B("j", "x1"), Zero32, Bytes(31, "junk")}
\* ("MINT_LOW" is a spelling of its own only on a chain whose minting denom is mixed-case; elsewhere it IS "MINT")
Toks    == (IF Thorough THEN {MINT, "MINT_UP", "MINT_FOLD", "OTHER", "EMPTY"} ELSE {MINT, "MINT_UP", "OTHER"}) \cup (IF MintLower = MINT THEN {} ELSE {"MINT_LOW"})
Dsts    == IF Thorough THEN {"d1", "d2"} ELSE {"d1"}
Callers == IF Thorough THEN {B("j", "x2"), Zero32, Empty, Bytes(31, "junk"), Bytes(33, "zero")} ELSE {B("j", "x2"), Zero32, Bytes(31, "junk")}
Froms   == IF Thorough THEN {"a1", "GARBAGE"} ELSE {"a1"}

MCMsgs(s, h) ==
       [type : {"DepositForBurn"}, from : Froms, amt : Amts, dst : Dsts, mrcpt : MRcpts, tok : Toks]
  \cup [type : {"DepositForBurnWithCaller"}, from : Froms, amt : Amts, dst : Dsts, mrcpt : MRcpts, tok : Toks, caller : Callers]

Init == InitOver(MCInit)
Next == NextOver(MCMsgs, 1)
Spec == Init /\ [][Next]_vars

\* C08 on the model, stated directly
DepositAcceptIff ==
  [][Ended => ((last'.res = "ok") <=>
                 DepositAccept(st, last'.msg, Outcome(last'.calls, "Transfer"), Outcome(last'.calls, "Burn")))]_vars
\* C14 on the model
RollbackExact == [][(Ended /\ last'.res = "err") => st' = st]_vars
DepositAllOrNothing ==
  [][(Ended /\ last'.res = "ok") =>
       /\ Len(last'.calls) = 2 /\ last'.calls[1].fn = "Transfer" /\ last'.calls[1].ok /\ last'.calls[2].fn = "Burn" /\ last'.calls[2].ok
       /\ last'.calls[1].from = last'.msg.from /\ last'.calls[1].amt = last'.msg.amt /\ last'.calls[2].amt = last'.msg.amt
       /\ Len(SentMsgs(last'.evs)) = 1
       /\ st'.bal["a1"] = st.bal["a1"] - last'.msg.amt /\ st'.supply = st.supply - last'.msg.amt]_vars
\* C06 on the model: the content of the emitted message, field by field
OutboundContent ==
  [][(Ended /\ last'.res = "ok") =>
       LET m == last'.msg
           w == SentMsgs(last'.evs)[1] IN
       /\ w = WireMsg(0, NOBLE, m.dst, st.nextNonce, ModulePadded, MsgrOf(st, m.dst).addr,
                      IF IsDepC(m) THEN m.caller ELSE Zero32,
                      BurnBody(0, KTok(MintLower), m.mrcpt, m.amt, Pad(m.from)))
       /\ last'.resp.nonce = st.nextNonce]_vars
=============================================================================
