------------------------------ MODULE GenTrace ------------------------------
(* C17 on observations of the real code.  Records (ndjson):                 *)
(*  {"id", "kind":"genesis",  "g":<abstract genesis>, "obs":{validate, init,*)
(*        export, exported, state}}                                         *)
(*  {"id", "kind":"reimport", "obs":{state, export, validate, init,         *)
(*        reimported, lost, extra, changed}}                                *)
(* One verdict line per record: {"id", "fails":[signature...], "applies"}.  *)
EXTENDS Genesis, Json, IOUtils

VARIABLES i, done
gtvars == <<i, done>>

TraceFile == IF "TRACE_FILE" \in DOMAIN IOEnv THEN IOEnv.TRACE_FILE ELSE "gen.ndjson"
Rs == ndJsonDeserialize(TraceFile)

ToSet(q) == {q[k] : k \in DOMAIN q}
NormState(s) == [s EXCEPT !.attesters = ToSet(@), !.used = ToSet(@), !.pairs = ToSet(@), !.msgrs = ToSet(@), !.limits = ToSet(@)]
NormGSet(x)  == [x EXCEPT !.attesters = ToSet(@), !.used = ToSet(@), !.pairs = ToSet(@), !.msgrs = ToSet(@), !.limits = ToSet(@)]

HasDupBy(q, K(_)) == ~NoDupBy(q, K)
DupLists(g) == {n \in {"attesters", "limits", "pairs", "used", "msgrs"} :
                  CASE n = "attesters" -> HasDupBy(g.attesters, LAMBDA x : x)
                    [] n = "limits"    -> HasDupBy(g.limits, LAMBDA x : x.denom)
                    [] n = "pairs"     -> HasDupBy(g.pairs, LAMBDA x : <<x.d, x.t>>)
                    [] n = "used"      -> HasDupBy(g.used, LAMBDA x : x)
                    [] n = "msgrs"     -> HasDupBy(g.msgrs, LAMBDA x : x.d)}

GenesisFails(r) ==
  LET g == r.g
      o == r.obs
      ledger == [bal |-> [a \in AddrSyms |-> 0], supply |-> 0]
      accepted == o.validate = "ok" /\ o.init = "ok" IN
       \* validation rejects every genesis with two entries on one key
       {"C17:validate:dup-" \o n : n \in {x \in DupLists(g) : o.validate = "ok"}}
  \cup \* accepted by validation and initialisation => export(init(g)) = g with defaults, and the state is the specified one
       (IF accepted /\ DupLists(g) = {} /\ (o.export # "ok" \/ NormGSet(o.exported) # GDefaults(g))
        THEN {"C17:roundtrip:export"} ELSE {})
  \cup (IF accepted /\ GValidate(g) /\ NormState(o.state) # GInit(g, ledger) THEN {"C17:roundtrip:init"} ELSE {})
  \cup \* what genesis lists is what the chain starts with: the same mismatch seen from the properties that rely on it
       (IF accepted /\ GValidate(g)
        THEN LET a == NormState(o.state)
                 b == GInit(g, ledger) IN
                  (IF a.used # b.used THEN {"C02:genesis:used-nonces"} ELSE {})
             \cup (IF <<a.attesters, a.threshold>> # <<b.attesters, b.threshold>> THEN {"C01:genesis:attesters", "C13:genesis:attesters"} ELSE {})
             \cup (IF <<a.owner, a.attMgr, a.pauser, a.tokCtl, a.pending>> # <<b.owner, b.attMgr, b.pauser, b.tokCtl, b.pending>> THEN {"C11:genesis:roles"} ELSE {})
             \cup (IF <<a.pausedBM, a.pausedSR>> # <<b.pausedBM, b.pausedSR>> THEN {"C12:genesis:flags"} ELSE {})
             \cup (IF a.nextNonce # b.nextNonce THEN {"C07:genesis:next-nonce"} ELSE {})
             \cup (IF <<a.pairs, a.msgrs, a.limits, a.attesters, a.used>> # <<b.pairs, b.msgrs, b.limits, b.attesters, b.used>> THEN {"C19:genesis:registries"} ELSE {})
        ELSE {})

StateFields == {"owner", "pending", "attMgr", "pauser", "tokCtl", "attesters", "threshold", "pausedBM", "pausedSR",
                "maxBody", "nextNonce", "used", "pairs", "msgrs", "limits"}
ReimportFails(r) ==
  LET o == r.obs IN
  IF o.export # "ok" THEN {"C17:reimport:export-" \o o.export}
  ELSE IF o.init # "ok" THEN {"C17:reimport:init-" \o o.init}
  ELSE LET a == NormState(o.state)
           b == NormState(o.reimported) IN
       {"C17:reimport:" \o f : f \in {x \in StateFields : a[x] # b[x]}}
       \cup {"C17:reimport:lost-" \o k.k : k \in ToSet(o.lost)}
       \cup {"C17:reimport:extra-" \o k.k : k \in ToSet(o.extra)}
       \cup {"C17:reimport:changed-" \o k.k : k \in ToSet(o.changed)}

Init == i \in 1..Len(Rs) /\ done = FALSE /\ st = 0 /\ tx = 0 /\ hist = 0 /\ last = 0
Next == /\ ~done /\ done' = TRUE /\ i' = i /\ UNCHANGED vars
        /\ PrintT(ToJson([id |-> Rs[i].id, kind |-> Rs[i].kind,
                          fails |-> IF Rs[i].kind = "genesis" THEN GenesisFails(Rs[i]) ELSE ReimportFails(Rs[i])]))
Spec == Init /\ [][Next]_<<gtvars, vars>>
=============================================================================
