---------------------------- MODULE MC_AttPaths ----------------------------
(* C13 / C01 / C19 over HISTORIES: every sequence (bounded length) of       *)
(* enable / disable / threshold-update transactions over a few attester     *)
(* strings (two spellings of one key among them), from a chain that starts  *)
(* with the minimum and from one with slack, ending in a receive attested   *)
(* by the keys the history leaves enabled.                                  *)
EXTENDS MCPaths

K1x == [key |-> "k1", sp |-> "0x"]
Start == [BaseState EXCEPT !.attesters = {A("k1"), A("k2")}, !.threshold = IF Thorough THEN 1 ELSE 2]

Msgs(s) ==
       [type : {"EnableAttester", "DisableAttester"}, from : {"a1"}, att : {A("k2"), A("k3"), K1x}]
  \cup [type : {"UpdateSignatureThreshold"}, from : {"a1"}, amt : {1, 2, 3}]
  \cup (IF s.threshold <= Cardinality(EnabledKeys(s.attesters))
        THEN {[type |-> "ReceiveMessage", from |-> "a1", wire |-> PlainIn(hist.steps, Zero32), att |-> HonestAtt(s)]}
        ELSE {})
Depth == IF Thorough THEN 5 ELSE 4

Init == PInit(Start)
Next == (\E m \in Msgs(st) : PStep(m, Depth)) \/ PDone(Start, Depth)
Spec == Init /\ [][Next]_pvars
=============================================================================
