------------------------------ MODULE Genesis ------------------------------
(***************************************************************************)
(* Genesis validation, initialisation and export on abstract genesis        *)
(* records (C17).                                                           *)
(*   g = [owner, attMgr, pauser, tokCtl : address-string symbol ("EMPTY" =  *)
(*        the empty string), attesters, limits, pairs, used, msgrs : SEQ,   *)
(*        bm, sr : -1 absent / 0 false / 1 true,                            *)
(*        maxBody, nextNonce, threshold : -1 absent / value ]               *)
(***************************************************************************)
EXTENDS Props

RoleFields == {"owner", "attMgr", "pauser", "tokCtl"}
Range(q)   == {q[i] : i \in DOMAIN q}
NoDupBy(q, K(_)) == \A i, j \in DOMAIN q : K(q[i]) = K(q[j]) => i = j

\* GenesisState.Validate: what it SHOULD do (every keyed list rejects two entries on one key)
GValidate(g) ==
  /\ \A f \in RoleFields : g[f] = "EMPTY" \/ ValidAddr(g[f])
  /\ NoDupBy(g.attesters, LAMBDA x : x)
  /\ NoDupBy(g.limits, LAMBDA x : x.denom)
  /\ g.bm # -1 /\ g.sr # -1
  /\ NoDupBy(g.pairs, LAMBDA x : <<x.d, x.t>>)
  /\ NoDupBy(g.used, LAMBDA x : x)
  /\ NoDupBy(g.msgrs, LAMBDA x : x.d)

GInitOk(g) == g.threshold # 0                 \* initialisation refuses a zero threshold

\* left-to-right writes: a later entry on the same key overwrites an earlier one
RECURSIVE FoldBy(_, _, _)
FoldBy(q, K(_), acc) ==
  IF q = <<>> THEN acc
  ELSE FoldBy(Tail(q), K, {x \in acc : K(x) # K(Head(q))} \cup {Head(q)})

GInit(g, ledger) ==
  [owner |-> g.owner, pending |-> None, attMgr |-> g.attMgr, pauser |-> g.pauser, tokCtl |-> g.tokCtl,
   attesters |-> Range(g.attesters),
   threshold |-> IF g.threshold = -1 THEN 1 ELSE g.threshold,
   pausedBM |-> g.bm # 0, pausedSR |-> g.sr # 0,                        \* absent flags initialise to paused
   maxBody |-> IF g.maxBody = -1 THEN 8000 ELSE g.maxBody,
   nextNonce |-> IF g.nextNonce = -1 THEN 0 ELSE g.nextNonce,
   used |-> Range(g.used),
   pairs |-> FoldBy(g.pairs, LAMBDA x : <<x.d, x.t>>, {}),
   msgrs |-> FoldBy(g.msgrs, LAMBDA x : x.d, {}),
   limits |-> FoldBy([i \in DOMAIN g.limits |-> [g.limits[i] EXCEPT !.amt = StoredAmt(@)]], LAMBDA x : x.denom, {}),
   bal |-> ledger.bal, supply |-> ledger.supply]

\* export, with keyed lists as sets (their order is the store's)
GExport(s) ==
  [owner |-> s.owner, attMgr |-> s.attMgr, pauser |-> s.pauser, tokCtl |-> s.tokCtl,
   attesters |-> s.attesters, limits |-> s.limits, bm |-> IF s.pausedBM THEN 1 ELSE 0,
   sr |-> IF s.pausedSR THEN 1 ELSE 0, maxBody |-> s.maxBody, nextNonce |-> s.nextNonce,
   threshold |-> s.threshold, pairs |-> s.pairs, used |-> s.used, msgrs |-> s.msgrs]

\* the genesis with absent optionals replaced by the documented defaults, lists as sets
GDefaults(g) ==
  [owner |-> g.owner, attMgr |-> g.attMgr, pauser |-> g.pauser, tokCtl |-> g.tokCtl,
   attesters |-> Range(g.attesters),
   limits |-> {[x EXCEPT !.amt = StoredAmt(@)] : x \in Range(g.limits)},
   bm |-> IF g.bm = 0 THEN 0 ELSE 1, sr |-> IF g.sr = 0 THEN 0 ELSE 1,
   maxBody |-> IF g.maxBody = -1 THEN 8000 ELSE g.maxBody,
   nextNonce |-> IF g.nextNonce = -1 THEN 0 ELSE g.nextNonce,
   threshold |-> IF g.threshold = -1 THEN 1 ELSE g.threshold,
   pairs |-> Range(g.pairs), used |-> Range(g.used), msgrs |-> Range(g.msgrs)]

\* a state as the genesis record that represents it (lists in any order)
SetToSeq(S) == CHOOSE q \in [1..Cardinality(S) -> S] : Range(q) = S
GOfState(s) ==
  [owner |-> s.owner, attMgr |-> s.attMgr, pauser |-> s.pauser, tokCtl |-> s.tokCtl,
   attesters |-> SetToSeq(s.attesters), limits |-> SetToSeq(s.limits), bm |-> IF s.pausedBM THEN 1 ELSE 0,
   sr |-> IF s.pausedSR THEN 1 ELSE 0, maxBody |-> s.maxBody, nextNonce |-> s.nextNonce,
   threshold |-> s.threshold, pairs |-> SetToSeq(s.pairs), used |-> SetToSeq(s.used), msgrs |-> SetToSeq(s.msgrs)]

(* The statements of C17 on the specification itself                        *)
\* accepted by validation and initialisation => export(init(g)) is g with defaults, nothing overwritten
RoundTripOK(g, ledger) == (GValidate(g) /\ GInitOk(g)) => GExport(GInit(g, ledger)) = GDefaults(g)
\* a rejected duplicate is exactly a silent overwrite: if validation accepts, no list loses an entry
NoSilentOverwrite(g, ledger) ==
  GValidate(g) => LET s == GInit(g, ledger) IN
     /\ Cardinality(s.pairs) = Len(g.pairs) /\ Cardinality(s.msgrs) = Len(g.msgrs)
     /\ Cardinality(s.limits) = Len(g.limits) /\ Cardinality(s.used) = Len(g.used)
     /\ Cardinality(s.attesters) = Len(g.attesters)
=============================================================================
