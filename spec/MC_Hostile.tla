----------------------------- MODULE MC_Hostile -----------------------------
(* C20: totality.  Every transaction type with every hostile class of every *)
(* field (absent / negative amounts, empty / short / long byte fields,      *)
(* malformed and non-ASCII addresses, fold-only and empty denoms, unusable  *)
(* attester strings, truncated wire messages), one field at a time (quick)  *)
(* or two at a time (thorough), in representative states.  The              *)
(* specification must evaluate to ok / err on each (an operator applied     *)
(* outside its domain is a TLC error), and so must the code.                *)
EXTENDS MCBase

EmptyReg == [BaseState EXCEPT !.pairs = {}, !.msgrs = {}, !.limits = {}, !.attesters = {A("k1")}]
Paused   == [BaseState EXCEPT !.pausedBM = TRUE, !.pausedSR = TRUE]
Odd      == [BaseState EXCEPT !.limits = {[denom |-> MINT, amt |-> 0], [denom |-> "MINT_FOLD", amt |-> -1]},
                              !.msgrs = {[d |-> "d1", addr |-> Zero32]}, !.maxBody = 0,
                              !.pairs = {[d |-> "d1", t |-> T1, denom |-> "MINT_FOLD"], [d |-> "d1", t |-> T2, denom |-> "EMPTY"]},
                              !.attesters = {A("k1"), A("junk1"), [key |-> "k2", sp |-> "0X"]}, !.threshold = 3,
                              !.owner = "a2", !.pending = "a2"]
NoAtt    == [BaseState EXCEPT !.attesters = {}]        \* a genesis without attesters: nothing can be received or replaced
NegLim   == [BaseState EXCEPT !.limits = {[denom |-> MINT, amt |-> -1]}]     \* (the limit setter takes any integer)
MCInit == {BaseState, EmptyReg, Paused, Odd, NoAtt, NegLim}

Addrs  == {"a1", "a2", "EMPTY", "GARBAGE", "WRONG_PREFIX", "BAD_CHECKSUM", "NON_ASCII", "EMPTY_PAYLOAD", "LONG_PAYLOAD",
           "zero", "MODULE", "s8", "l33"}
Amts   == {ABSENT, -1, 0, 1, 3}
ByteVs == {B("j", "x1"), Zero32, Pad("a1"), ModulePadded, Empty, Bytes(1, "junk"), Bytes(20, "junk"), Bytes(31, "zero"),
           Bytes(31, "junk"), Bytes(33, "zero"), Bytes(33, "junk"), Bytes(64, "junk")}
Denoms == {MINT, "MINT_UP", "MINT_FOLD", "OTHER", "EMPTY"}
Doms   == {"d1", "d2", NOBLE}
AttStrs == {A("k1"), A("k3"), [key |-> "k1", sp |-> "0x"], [key |-> "k2", sp |-> "UP"], A("junk1"),
            [key |-> "none", sp |-> "empty"], [key |-> "none", sp |-> "0xonly"], [key |-> "none", sp |-> "nothex"]}
BodiesH == {Raw(1, 0), Raw(1, 1), Raw(1, 131), Raw(1, 132), Raw(1, 133), Raw(1, 201), Raw(1, 4000),
            BurnBody(0, T1, Pad("a3"), 1, Pad("x2")), BurnBody(7, T1, Pad("a3"), 0, Pad("x2"))}
AttsH  == {Att(<<>>), Att(<<Sg("k1")>>), [sigs |-> <<Sg("k1")>>, pad |-> -1], [sigs |-> <<>>, pad |-> 1],
           Att(<<[k |-> "k1", over |-> "this", enc |-> "zero"]>>), Att(<<[k |-> "k1", over |-> "this", enc |-> "badv"]>>),
           Att(<<Sg("k1"), Sg("k2"), Sg("k3")>>)}
WiresH == {[k |-> "short", len |-> n, id |-> 1] : n \in {0, 1, 115}}
          \cup {WireMsg(v, s, d, 0, snd, r, c, b) : v \in {0, 1}, s \in {"d1"}, d \in {NOBLE}, snd \in {M1}, r \in {ModulePadded, R1},
                                                      c \in {Zero32}, b \in BodiesH}
          \cup {DepOutMsg("a1", 0, 1), PlainOut("a1", 0), BurnIn(0, Pad("a1"), 1, Pad("zero"))}

\* one valid message per type; the hostile universe is built by deviating from these
Defaults ==
  { [type |-> "SendMessage", from |-> "a1", dst |-> "d1", rcpt |-> R1, body |-> Raw(1, 10)],
    [type |-> "SendMessageWithCaller", from |-> "a1", dst |-> "d1", rcpt |-> R1, body |-> Raw(1, 10), caller |-> B("j", "x1")],
    [type |-> "DepositForBurn", from |-> "a1", amt |-> 1, dst |-> "d1", mrcpt |-> B("j", "x1"), tok |-> MINT],
    [type |-> "DepositForBurnWithCaller", from |-> "a1", amt |-> 1, dst |-> "d1", mrcpt |-> B("j", "x1"), tok |-> MINT, caller |-> B("j", "x1")],
    [type |-> "ReceiveMessage", from |-> "a1", wire |-> BurnIn(0, Zero32, 1, Pad("a3")), att |-> Att(<<Sg("k1")>>)],
    [type |-> "ReplaceMessage", from |-> "a1", orig |-> PlainOut("a1", 0), att |-> Att(<<Sg("k1")>>), body |-> Raw(2, 12), caller |-> Zero32],
    [type |-> "ReplaceDepositForBurn", from |-> "a1", orig |-> DepOutMsg("a1", 0, 1), att |-> Att(<<Sg("k1")>>), mrcpt |-> B("j", "x2"), caller |-> Zero32],
    [type |-> "UpdateOwner", from |-> "a1", new |-> "a2"], [type |-> "AcceptOwner", from |-> "a2"],
    [type |-> "UpdateAttesterManager", from |-> "a1", new |-> "a2"], [type |-> "UpdatePauser", from |-> "a1", new |-> "a2"],
    [type |-> "UpdateTokenController", from |-> "a1", new |-> "a2"],
    [type |-> "UpdateMaxMessageBodySize", from |-> "a1", size |-> 150],
    [type |-> "AddRemoteTokenMessenger", from |-> "a1", d |-> "d2", addr |-> M2],
    [type |-> "RemoveRemoteTokenMessenger", from |-> "a1", d |-> "d1"],
    [type |-> "EnableAttester", from |-> "a1", att |-> A("k3")], [type |-> "DisableAttester", from |-> "a1", att |-> A("k2")],
    [type |-> "UpdateSignatureThreshold", from |-> "a1", amt |-> 2],
    [type |-> "PauseBurningAndMinting", from |-> "a1"], [type |-> "UnpauseBurningAndMinting", from |-> "a1"],
    [type |-> "PauseSendingAndReceivingMessages", from |-> "a1"], [type |-> "UnpauseSendingAndReceivingMessages", from |-> "a1"],
    [type |-> "LinkTokenPair", from |-> "a1", d |-> "d2", tok |-> T2, denom |-> MINT],
    [type |-> "UnlinkTokenPair", from |-> "a1", d |-> "d1", tok |-> T1],
    [type |-> "SetMaxBurnAmountPerMessage", from |-> "a1", denom |-> MINT, amt |-> 1] }

\* hostile values of a field, by field name and message type
Hostile(m, f) ==
  CASE f = "from"                             -> Addrs \ {"MODULE"}   \* the module account has no key and cannot sign
    [] f = "new"                              -> Addrs
    [] f = "amt" /\ m.type = "UpdateSignatureThreshold" -> {0, 1, 2, 3, 1000}
    [] f = "amt"                                -> Amts
    [] f \in {"rcpt", "caller", "mrcpt", "addr", "tok"} /\ m.type \notin DepTypes -> ByteVs
    [] f \in {"caller", "mrcpt"}               -> ByteVs
    [] f = "tok"                               -> Denoms       \* the burn token of a deposit is a denom string
    [] f = "denom"                             -> Denoms
    [] f \in {"dst", "d"}                      -> Doms
    [] f = "body"                              -> BodiesH
    [] f = "att" /\ m.type \in {"EnableAttester", "DisableAttester"} -> AttStrs
    [] f = "att"                               -> AttsH
    [] f \in {"wire", "orig"}                  -> WiresH
    [] f = "size"                              -> {0, 1, 131, 132, 1000000}
    [] OTHER                                   -> {m[f]}

Fields(m) == DOMAIN m \ {"type"}
One(m) == {[m EXCEPT ![f] = v] : <<f, v>> \in UNION {{<<f, v>> : v \in Hostile(m, f)} : f \in Fields(m)}}
Two(m) == UNION {One(x) : x \in One(m)}
MCMsgs(s, h) == UNION {IF Thorough /\ m.type \in UserTypes THEN Two(m) ELSE One(m) : m \in Defaults}

Init == InitOver(MCInit)
Next == NextOver(MCMsgs, 1)
Spec == Init /\ [][Next]_vars
\* totality of the specification: every hostile transaction is ok or err, and a failed one changes nothing
Total == [][Ended => (last'.res \in {"ok", "err"} /\ (last'.res = "err" => st' = st))]_vars
=============================================================================
