SPECIFICATION Spec
CONSTANTS
  MintLower = "MINT"
  Accounts <- AllAccounts
  Thorough = TRUE

INVARIANTS HistoryOK ModuleAccountEmpty ThresholdInv
PROPERTIES SpecSatisfiesLenses StepwiseIsRun DepositAcceptIff RollbackExact DepositAllOrNothing OutboundContent
ACTION_CONSTRAINT EmitEdge
CHECK_DEADLOCK FALSE
