SPECIFICATION Spec
CONSTANTS
  MintLower = "MINT"
  Accounts <- AllAccounts
  Thorough = FALSE
INVARIANTS ModuleAccountEmpty ThresholdInv
PROPERTIES DiscardedChangesNothing
CHECK_DEADLOCK FALSE
