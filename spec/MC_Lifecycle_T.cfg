SPECIFICATION Spec
CONSTANTS
  MintLower = "MINT"
  Accounts <- AllAccounts
  Thorough = TRUE
INVARIANTS ModuleAccountEmpty ThresholdInv
PROPERTIES DiscardedChangesNothing
CHECK_DEADLOCK FALSE
