----------------------------- MODULE MC_Receive -----------------------------
(* C03 / C04 (and the per-step part of C02, C12, C14): the product of the   *)
(* acceptance conditions of receive-message.  States vary flags, used       *)
(* nonces, token pairs and token messengers; messages vary every header and *)
(* body field, each condition falsified in at least two ways; the mint      *)
(* outcome is the environment's choice.                                     *)
EXTENDS MCBase

Key0 == [d |-> "d1", n |-> 0]
PairSets == IF Thorough
            THEN {{}, {[d |-> "d1", t |-> T1, denom |-> MINT]}, {[d |-> "d1", t |-> T1, denom |-> "MINT_UP"]},
                  {[d |-> "d2", t |-> T1, denom |-> MINT]}, {[d |-> "d1", t |-> T2, denom |-> MINT]},
                  {[d |-> "d1", t |-> T1, denom |-> "OTHER"]}}
            ELSE {{}, {[d |-> "d1", t |-> T1, denom |-> MINT]}, {[d |-> "d1", t |-> T1, denom |-> "MINT_UP"]},
                  {[d |-> "d2", t |-> T1, denom |-> MINT]}}
MsgrSets == IF Thorough
            THEN {{}, {[d |-> "d1", addr |-> M1]}, {[d |-> "d1", addr |-> M2]}, {[d |-> "d2", addr |-> M1]}}
            ELSE {{}, {[d |-> "d1", addr |-> M1]}, {[d |-> "d1", addr |-> M2]}}
UsedSets == {{}, {Key0}, {[d |-> "d2", n |-> 0]}}

MCInit == {[BaseState EXCEPT !.pausedBM = bm, !.pausedSR = sr, !.used = u, !.pairs = p, !.msgrs = ms] :
             bm \in BOOLEAN, sr \in BOOLEAN, u \in UsedSets, p \in PairSets, ms \in MsgrSets}

GoodAtt == Att(<<Sg("k1")>>)
Atts    == IF Thorough
           THEN {GoodAtt, Att(<<Sg("k3")>>), Att(<<>>), Att(<<[k |-> "k1", over |-> "other", enc |-> "v01"]>>)}
           ELSE {GoodAtt, Att(<<Sg("k3")>>)}
Callers == IF Thorough THEN {Zero32, Pad("a1"), Pad("a2"), ModulePadded, B("j", "a1"), B("j", "zero")}
                       ELSE {Zero32, Pad("a1"), Pad("a2")}
Bodies  == IF Thorough
           THEN {BurnBody(0, T1, Pad("a3"), 1, Pad("x2")), BurnBody(1, T1, Pad("a3"), 1, Pad("x2")),
                 BurnBody(0, T2, Pad("a3"), 1, Pad("x2")), BurnBody(0, T1, B("j", "a3"), 2, Pad("x2")),
                 BurnBody(0, T1, Pad("a3"), 0, Pad("x2")), BurnBody(0, KTok(MINT), Pad("a1"), 1, Pad("a1")),
                 BurnBody(0, T1, Pad("a8"), 1, Pad("x2")), BurnBody(0, T1, B("j", "x2"), 1, Pad("x2")), BurnBody(0, T1, Pad("zero"), 1, Pad("x2")),
                 Raw(1, 132), Raw(1, 131), Raw(1, 133), Raw(1, 0), Raw(1, 300)}
           ELSE {BurnBody(0, T1, Pad("a3"), 1, Pad("x2")), BurnBody(1, T1, Pad("a3"), 1, Pad("x2")),
                 BurnBody(0, T2, Pad("a3"), 1, Pad("x2")), BurnBody(0, T1, B("j", "a3"), 2, Pad("x2")),
                 BurnBody(0, T1, Pad("a8"), 1, Pad("x2")),          \* (a8 / x2: addresses that start with zero bytes)
                 Raw(1, 132), Raw(1, 131)}
Rcpts   == IF Thorough THEN {ModulePadded, R1, Pad("a1"), B("j", MODULE_ACC)} ELSE {ModulePadded, R1}
Wires   == [k : {"msg"}, ver : {0, 1}, src : {"d1"}, dst : {NOBLE, "d2"}, nonce : {0}, sender : {M1, M2, Pad("m1")},
            rcpt : Rcpts, caller : Callers, body : Bodies]
           \cup {[k |-> "short", len |-> n, id |-> 1] : n \in {0, 115}}

MCMsgs(s, h) == [type : {"ReceiveMessage"}, from : {"a1"}, wire : Wires, att : Atts]

Init == InitOver(MCInit)
Next == NextOver(MCMsgs, 1)
Spec == Init /\ [][Next]_vars

\* C03 on the model, stated directly
ReceiveAcceptIff ==
  [][Ended => ((last'.res = "ok") <=> RecvAccept(st, last'.msg, Outcome(last'.calls, "Mint")))]_vars
\* C04 on the model: the one mint is exactly what the burn message says
MintExact ==
  [][(Ended /\ last'.res = "ok") =>
       IF IsModuleRecv(last'.msg)
       THEN LET b == last'.msg.wire.body IN
            last'.calls = <<[fn |-> "Mint", from |-> MODULE_ACC, to |-> b.rcpt.lo, denom |-> MINT, amt |-> b.amt, ok |-> TRUE]>>
            /\ st'.bal[b.rcpt.lo] = st.bal[b.rcpt.lo] + b.amt /\ st'.supply = st.supply + b.amt
       ELSE last'.calls = <<>> /\ Ledger(st') = Ledger(st)]_vars
RollbackExact == [][(Ended /\ last'.res = "err") => st' = st]_vars
=============================================================================
