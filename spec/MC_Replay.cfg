SPECIFICATION Spec
CONSTANTS
  MintLower = "MINT"
  Accounts <- AllAccounts
  Thorough = FALSE
VIEW ReplayView
INVARIANTS HistoryOK ModuleAccountEmpty ThresholdInv
PROPERTIES SpecSatisfiesLenses StepwiseIsRun UsedMonotone FailedFree
ACTION_CONSTRAINT EmitEdge
CHECK_DEADLOCK FALSE
