SPECIFICATION Spec
CONSTANTS
  MintLower = "MINT"
  Accounts <- AllAccounts
  Thorough = TRUE
INVARIANTS ModuleAccountEmpty HistoryOK

CHECK_DEADLOCK FALSE
