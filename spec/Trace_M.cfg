SPECIFICATION TSpec
CONSTANTS
  MintLower = "MINT_LOW"
  Accounts = {"a1","a2","a3","a4","a5","a6","a7","a8"}
ACTION_CONSTRAINT Verdict
CHECK_DEADLOCK FALSE
