------------------------------ MODULE MCBase ------------------------------
(* Shared constructors for the bounded models.                              *)
EXTENDS Props, Json

CONSTANT Thorough      \* FALSE: quick constants, TRUE: the larger ones

A(k)        == [key |-> k, sp |-> "hex"]
Raw(id, n)  == [k |-> "raw", id |-> id, len |-> n]
Sg(k)       == [k |-> k, over |-> "this", enc |-> "v01"]
Att(sigs)   == [sigs |-> sigs, pad |-> 0]
T1 == B("j", "t1")   T2 == B("j", "t2")
M1 == B("j", "m1")   M2 == B("j", "m2")
R1 == B("j", "r1")

\* the attestation an honest attestation service produces in state s
RECURSIVE SortedKeys(_)
SortedKeys(K) == IF K = {} THEN <<>>
                 ELSE LET m == CHOOSE k \in K : \A j \in K : KeyOrd(k) <= KeyOrd(j) IN <<m>> \o SortedKeys(K \ {m})
\* (when one key is registered under several spellings the distinct keys may not reach the threshold: the service
\* then signs with all it has, and the attestation is simply not a quorum)
HonestAtt(s) == LET ks == SortedKeys(EnabledKeys(s.attesters))
                    n  == IF s.threshold <= Len(ks) THEN s.threshold ELSE Len(ks)
                IN  Att([i \in 1..n |-> Sg(ks[i])])

AllAccounts == {"a1", "a2", "a3", "a4", "a5", "a6", "a7", "a8"}
Bal0(f(_))  == [a \in AddrSyms |-> IF a \in AllAccounts THEN f(a) ELSE 0]

BaseState ==
  [owner |-> "a1", pending |-> None, attMgr |-> "a1", pauser |-> "a1", tokCtl |-> "a1",
   attesters |-> {A("k1"), A("k2")}, threshold |-> 1,
   pausedBM |-> FALSE, pausedSR |-> FALSE, maxBody |-> 200, nextNonce |-> 0,
   used |-> {}, pairs |-> {[d |-> "d1", t |-> T1, denom |-> MINT]},
   msgrs |-> {[d |-> "d1", addr |-> M1]}, limits |-> {[denom |-> MINT, amt |-> 2]},
   bal |-> [a \in AddrSyms |-> IF a \in {"a1", "a2", "a3"} THEN 2 ELSE 0], supply |-> 6]

\* an inbound burn message from d1's token messenger
BurnIn(nonce, caller, amt, to) ==
  WireMsg(0, "d1", NOBLE, nonce, M1, ModulePadded, caller, BurnBody(0, T1, to, amt, Pad("x2")))
\* an inbound plain message
PlainIn(nonce, caller) == WireMsg(0, "d1", NOBLE, nonce, B("j", "x2"), R1, caller, Raw(1, 20))
\* an outbound message of `from` and an outbound deposit of `from` as Noble would have emitted them
PlainOut(from, nonce) == WireMsg(0, NOBLE, "d1", nonce, Pad(from), R1, Zero32, Raw(1, 10))
DepOutMsg(from, nonce, amt) ==
  WireMsg(0, NOBLE, "d1", nonce, ModulePadded, M1, Zero32, BurnBody(0, KTok(MINT), B("j", "x1"), amt, Pad(from)))

StView == <<st, tx>>      \* for closure models: history and outputs are not part of the state identity

EmitEdge == IF tx'.pc = "idle"
            THEN PrintT(ToJson([pre |-> st, msg |-> last'.msg, faults |-> last'.faults]))
            ELSE TRUE

\* Standard shape of a bounded model: Init over a given state set, at most MaxSteps transactions.
InitOver(S) == st \in S /\ tx = Idle /\ hist = HistInit(st) /\ last = NoLast
NextOver(Msgs(_, _), MaxSteps) ==
  \/ (tx.pc = "idle" /\ hist.steps < MaxSteps /\ \E m \in Msgs(st, hist) : Submit(m))
  \/ (\E env \in BOOLEAN : CallLedger(env))
=============================================================================
