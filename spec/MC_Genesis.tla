----------------------------- MODULE MC_Genesis -----------------------------
(* C17: genesis records with lists of length <= 2 (thorough: 3) including   *)
(* colliding keys in each of the five keyed lists, optional fields present  *)
(* and absent, threshold 0, empty and malformed role strings.               *)
EXTENDS Genesis, Json, FiniteSetsExt

CONSTANT Thorough
VARIABLES g, done
gvars == <<g, done>>

A(k) == [key |-> k, sp |-> "hex"]
MaxLen == IF Thorough THEN 3 ELSE 2
SeqsUpTo(S) == UNION {[1..n -> S] : n \in 0..MaxLen}

AttU   == {A("k1"), [key |-> "k1", sp |-> "0x"], A("k2")}
LimU   == {[denom |-> MINT, amt |-> 1], [denom |-> MINT, amt |-> 2], [denom |-> "MINT_UP", amt |-> 1], [denom |-> "OTHER", amt |-> ABSENT]}
PairU  == {[d |-> "d1", t |-> B("j", "t1"), denom |-> MINT], [d |-> "d1", t |-> B("j", "t1"), denom |-> "OTHER"],
           [d |-> "d2", t |-> B("j", "t1"), denom |-> MINT], [d |-> "d1", t |-> B("j", "t2"), denom |-> "MINT_UP"]}
\* (d4, d5 are domains whose big-endian encoding starts with 0xFF)
UsedU  == {[d |-> "d1", n |-> 0], [d |-> "d1", n |-> 1], [d |-> "d5", n |-> 0]}
MsgrU  == {[d |-> "d1", addr |-> B("j", "m1")], [d |-> "d1", addr |-> B("j", "m2")], [d |-> "d4", addr |-> B("j", "m1")]}

Default == [owner |-> "a1", attMgr |-> "a2", pauser |-> "a3", tokCtl |-> "a1",
            attesters |-> <<A("k1"), A("k2")>>, limits |-> <<[denom |-> MINT, amt |-> 2]>>,
            bm |-> 0, sr |-> 0, maxBody |-> 200, nextNonce |-> 3, threshold |-> 2,
            pairs |-> <<[d |-> "d1", t |-> B("j", "t1"), denom |-> MINT]>>, used |-> <<[d |-> "d1", n |-> 0]>>,
            msgrs |-> <<[d |-> "d1", addr |-> B("j", "m1")]>>]

Scalars == [owner : {"a1", "EMPTY", "GARBAGE"}, attMgr : {"a2", "BAD_CHECKSUM"}, bm : {-1, 0, 1}, sr : {-1, 0}, maxBody : {-1, 200}, nextNonce : {-1, 3},
            threshold : {-1, 0, 1, 2}]
WithScalars(x, sc) == [x EXCEPT !.owner = sc.owner, !.attMgr = IF sc.owner = "GARBAGE" THEN "a2" ELSE sc.attMgr,
                                 !.pauser = IF sc.owner = "EMPTY" THEN sc.attMgr ELSE "a3", !.bm = sc.bm, !.sr = sc.sr, !.maxBody = sc.maxBody,
                                 !.nextNonce = sc.nextNonce, !.threshold = sc.threshold]
\* one list varies at a time over all sequences up to MaxLen (so every collision pattern of that list occurs)
ListVariants ==
       {[Default EXCEPT !.attesters = q] : q \in SeqsUpTo(AttU)}
  \cup {[Default EXCEPT !.limits = q] : q \in SeqsUpTo(LimU)}
  \cup {[Default EXCEPT !.pairs = q] : q \in SeqsUpTo(PairU)}
  \cup {[Default EXCEPT !.used = q] : q \in SeqsUpTo(UsedU)}
  \cup {[Default EXCEPT !.msgrs = q] : q \in SeqsUpTo(MsgrU)}
\* explicit zero vs. absent for every optional scalar (on the default lists)
ZeroScalars == [owner : {"a1"}, attMgr : {"a2"}, bm : {-1, 0, 1}, sr : {-1, 0, 1}, maxBody : {-1, 0, 200}, nextNonce : {-1, 0, 3},
                threshold : {-1, 0, 2}]
Universe == {WithScalars(x, sc) : x \in ListVariants, sc \in Scalars} \cup {WithScalars(Default, sc) : sc \in ZeroScalars}

Ledger0 == [bal |-> [a \in AddrSyms |-> 0], supply |-> 0]

\* (the chain variables of CCTP.tla are not used by this model)
Init == g \in Universe /\ done = FALSE /\ st = 0 /\ tx = 0 /\ hist = 0 /\ last = 0
Next == ~done /\ done' = TRUE /\ g' = g /\ PrintT(ToJson([g |-> g])) /\ UNCHANGED vars
Spec == Init /\ [][Next]_<<gvars, vars>>

RoundTrip     == RoundTripOK(g, Ledger0)
NoOverwrite   == NoSilentOverwrite(g, Ledger0)
\* export then import is the identity on every state that initialisation can produce
ExportImport  == (GValidate(g) /\ GInitOk(g)) =>
                    LET s == GInit(g, Ledger0) IN GInit(GOfState(s), Ledger0) = s
=============================================================================
