----------------------------- MODULE MC_Pause -----------------------------
(* C12: the flag x flow matrix.  From each of the four flag states: the     *)
(* eight user-facing flows with otherwise valid input, the four pause       *)
(* actions by the pauser and by someone else, one administrative action per *)
(* role; two transactions deep so that every flow is also tried after a     *)
(* pause and after an unpause.                                              *)
EXTENDS MCBase

MCInit == {[BaseState EXCEPT !.pausedBM = bm, !.pausedSR = sr, !.pauser = "a2", !.bal = [@ EXCEPT !["a1"] = 6], !.supply = 10] : bm \in BOOLEAN, sr \in BOOLEAN}

\* a nonce that the state has not consumed yet keeps the receive "otherwise valid"
FreshIn(s) == CHOOSE n \in 0..10 : [d |-> "d1", n |-> n] \notin s.used

Flows(s) ==
  { [type |-> "SendMessage", from |-> "a1", dst |-> "d1", rcpt |-> R1, body |-> Raw(1, 10)],
    [type |-> "SendMessageWithCaller", from |-> "a1", dst |-> "d1", rcpt |-> R1, body |-> Raw(1, 10), caller |-> B("j", "x1")],
    [type |-> "DepositForBurn", from |-> "a1", amt |-> 1, dst |-> "d1", mrcpt |-> B("j", "x1"), tok |-> MINT],
    [type |-> "DepositForBurnWithCaller", from |-> "a1", amt |-> 1, dst |-> "d1", mrcpt |-> B("j", "x1"), tok |-> MINT, caller |-> B("j", "x1")],
    [type |-> "ReceiveMessage", from |-> "a1", wire |-> PlainIn(FreshIn(s), Zero32), att |-> HonestAtt(s)],
    [type |-> "ReceiveMessage", from |-> "a1", wire |-> BurnIn(FreshIn(s), Zero32, 1, Pad("a3")), att |-> HonestAtt(s)],
    \* a burn-shaped message whose recipient has the module's bytes behind junk padding: NOT addressed to the module
    [type |-> "ReceiveMessage", from |-> "a1", att |-> HonestAtt(s),
     wire |-> WireMsg(0, "d1", NOBLE, FreshIn(s), M1, B("j", MODULE_ACC), Zero32, BurnBody(0, T1, Pad("a3"), 1, Pad("x2")))],
    [type |-> "ReplaceMessage", from |-> "a1", orig |-> PlainOut("a1", 0), att |-> HonestAtt(s), body |-> Raw(2, 12), caller |-> Zero32],
    [type |-> "ReplaceDepositForBurn", from |-> "a1", orig |-> DepOutMsg("a1", 0, 1), att |-> HonestAtt(s), mrcpt |-> B("j", "x2"), caller |-> Zero32] }

Admin ==
       [type : PauserTypes, from : {"a1", "a2"}]
  \cup {[type |-> "UpdateMaxMessageBodySize", from |-> "a1", size |-> 150],
        [type |-> "UpdatePauser", from |-> "a1", new |-> "a3"],
        [type |-> "UpdateOwner", from |-> "a1", new |-> "a3"],
        [type |-> "AddRemoteTokenMessenger", from |-> "a1", d |-> "d2", addr |-> M2],
        [type |-> "EnableAttester", from |-> "a1", att |-> A("k3")],
        [type |-> "UpdateSignatureThreshold", from |-> "a1", amt |-> 2],
        [type |-> "LinkTokenPair", from |-> "a1", d |-> "d2", tok |-> T2, denom |-> MINT],
        [type |-> "SetMaxBurnAmountPerMessage", from |-> "a1", denom |-> MINT, amt |-> 1]}

MCMsgs(s, h) == Flows(s) \cup Admin
Init == InitOver(MCInit)
Next == NextOver(MCMsgs, IF Thorough THEN 3 ELSE 2)
Spec == Init /\ [][Next]_vars

\* C12 on the model: a flag changes only by the pauser's action on that flag
FlagChangeOnlyByPauser ==
  [][Ended => /\ st'.pausedBM # st.pausedBM =>
                   (last'.msg.type \in {"PauseBurningAndMinting", "UnpauseBurningAndMinting"} /\ last'.msg.from = st.pauser)
              /\ st'.pausedSR # st.pausedSR =>
                   (last'.msg.type \in {"PauseSendingAndReceivingMessages", "UnpauseSendingAndReceivingMessages"} /\ last'.msg.from = st.pauser)]_vars
\* every cell of the matrix: with otherwise valid input (and a cooperative ledger) a flow succeeds exactly
\* when no flag that names it is set
MatrixExact ==
  [][(Ended /\ last'.msg \in Flows(st) /\ (\A i \in DOMAIN last'.faults : last'.faults[i]))
        => ((last'.res = "ok") <=> ~BlockedBy(st, last'.msg))]_vars
=============================================================================
