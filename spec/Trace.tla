------------------------------- MODULE Trace -------------------------------
(***************************************************************************)
(* Validation of executions observed from the real code.                    *)
(*                                                                          *)
(* The input (ndjson, one history per line) is                              *)
(*   {"id": n, "init": <projected state after genesis>,                     *)
(*    "events": [{"msg":.., "faults":[..], "obs":{res,resp,calls,evs,post,  *)
(*                junk,writes,vas}} ...]}                                   *)
(* Each history is one behaviour: the initial state is the observed state,  *)
(* each step consumes one event, continues from the state the CODE produced *)
(* and extends the history variable from the OBSERVED outputs.  On every    *)
(* step TLC evaluates all lenses of Props.tla (expected = Run(st, msg,      *)
(* faults)) and the history predicates, and prints one verdict line         *)
(*   {"h":id, "l":k, "fails":[..], "applies":[..]}                          *)
(* The specification is total and deterministic, so validation never blocks *)
(* or branches; the driver checks that one verdict per event was printed.   *)
(***************************************************************************)
EXTENDS Props, Json, IOUtils

VARIABLES h, l,
          xst       \* the state as the HISTORY establishes it: the specification's own transition applied to the
                    \* transactions so far (st is what the store holds).  On conforming code xst = st throughout.
tvars == <<st, tx, hist, last, h, l, xst>>

TraceFile == IF "TRACE_FILE" \in DOMAIN IOEnv THEN IOEnv.TRACE_FILE ELSE "trace.ndjson"
Hs == ndJsonDeserialize(TraceFile)

ToSet(q) == {q[i] : i \in DOMAIN q}
NormState(s) == [s EXCEPT !.attesters = ToSet(@), !.used = ToSet(@), !.pairs = ToSet(@),
                          !.msgrs = ToSet(@), !.limits = ToSet(@)]
NormObs(o) == [o EXCEPT !.post = NormState(@), !.junk = ToSet(@), !.writes = ToSet(@)]

\* the observation seen as an Out record, for the history variable
ObsOut(e, o) ==
  IF e.msg.type = "Batch" /\ "inner" \in DOMAIN o
  THEN [msg |-> e.msg, faults |-> e.faults, res |-> ResOf(o), resp |-> o.resp, calls |-> o.calls, evs |-> o.evs, inner |-> o.inner]
  ELSE [msg |-> e.msg, faults |-> e.faults, res |-> ResOf(o), resp |-> o.resp, calls |-> o.calls, evs |-> o.evs]

TInit == /\ h \in 1..Len(Hs)
         /\ l = 0
         /\ st = NormState(Hs[h].init)
         /\ tx = Idle
         /\ hist = HistInit(st)
         /\ last = NoLast
         /\ xst = NormState(IF "pre" \in DOMAIN Hs[h] THEN Hs[h].pre ELSE Hs[h].init)

TNext == /\ l < Len(Hs[h].events)
         /\ l' = l + 1 /\ h' = h /\ tx' = tx
         /\ LET e == Hs[h].events[l + 1]
                o == NormObs(e.obs) IN
            /\ st' = o.post
            \* (where the properties are silent the history continues from what the code did)
            \* (... and a transaction the code refused without effect establishes nothing)
            /\ xst' = IF AnyDontCare(e.msg) THEN o.post
                      ELSE IF ResOf(o) # "ok" /\ o.post = st THEN xst
                      ELSE Run(xst, e.msg, e.faults).post
            /\ hist' = HistExtend(hist, ObsOut(e, o))
            /\ last' = [msg |-> e.msg, faults |-> e.faults, obs |-> o]

TSpec == TInit /\ [][TNext]_tvars

\* The initialisation step: when the chain initialised from the intended state `pre` (through the real
\* InitGenesis) does not hold that state, the record carries both; what genesis established is not what the
\* store (and the queries) show.
InitFails(H) ==
  IF "pre" \notin DOMAIN H THEN {} ELSE
  LET a == NormState(H.pre)
      b == NormState(H.init) IN
  IF a = b /\ H.junk0 = <<>> THEN {} ELSE
       {"C19", "C17"}
  \cup (IF <<a.attesters, a.threshold>> # <<b.attesters, b.threshold>> THEN {"C01", "C13"} ELSE {})
  \cup (IF Roles(a) # Roles(b) THEN {"C11"} ELSE {})
  \cup (IF a.used # b.used THEN {"C02"} ELSE {})
  \cup (IF <<a.pausedBM, a.pausedSR>> # <<b.pausedBM, b.pausedSR>> THEN {"C12"} ELSE {})
  \cup (IF a.nextNonce # b.nextNonce THEN {"C07"} ELSE {})
  \cup (IF H.junk0 # <<>> THEN {"C15"} ELSE {})

\* evaluated once per generated step
Verdict ==
  LET e == last' IN
  PrintT(ToJson([h |-> Hs[h].id, l |-> l',
                 fails   |-> Fails(st, e.msg, e.faults, e.obs) \cup HistFails(st', hist')
                             \cup (IF l' = 1 THEN InitFails(Hs[h]) ELSE {})
                             \cup AlongHistory(xst, e.msg, e.faults, e.obs)
                             \cup (IF RetryUnaffected(st, hist, e.msg, e.faults, e.obs) THEN {} ELSE {"C14", "C02"}),
                 applies |-> Applied(st, e.msg, e.faults, e.obs),
                 div     |-> Diverges(st, e.msg, e.faults, e.obs)]))
=============================================================================
