----------------------------- MODULE MC_Replay -----------------------------
(* C02: histories.  Repeated receive attempts for the same (source domain,  *)
(* nonce) that differ in body, recipient, attestation encoding and          *)
(* submitter, interleaved with pausing, attester rotation and re-linking of *)
(* the token pair; a neighbouring key (same nonce other domain, same domain *)
(* other nonce) must stay independent.                                      *)
EXTENDS MCBase

MCInit == {[BaseState EXCEPT !.attesters = {A("k1"), A("k2"), A("k3")}, !.threshold = 1,
                             !.msgrs = {[d |-> "d1", addr |-> M1], [d |-> "d2", addr |-> M1]},
                             !.pairs = {[d |-> "d1", t |-> T1, denom |-> MINT], [d |-> "d2", t |-> T1, denom |-> MINT]}]}

\* an attestation that is valid in state s, in one of several encodings
AttEnc(s, e) == LET a == HonestAtt(s) IN [a EXCEPT !.sigs = [i \in DOMAIN a.sigs |-> [a.sigs[i] EXCEPT !.enc = e]]]

Variants(s, d, n) ==
  { [type |-> "ReceiveMessage", from |-> "a1", att |-> AttEnc(s, "v01"),
     wire |-> WireMsg(0, d, NOBLE, n, M1, ModulePadded, Zero32, BurnBody(0, T1, Pad("a3"), 1, Pad("x2")))],
    [type |-> "ReceiveMessage", from |-> "a2", att |-> AttEnc(s, "hs2728"),
     wire |-> WireMsg(0, d, NOBLE, n, M1, ModulePadded, Zero32, BurnBody(0, T1, Pad("a2"), 2, Pad("x2")))],
    [type |-> "ReceiveMessage", from |-> "a1", att |-> AttEnc(s, "v2728"),
     wire |-> WireMsg(0, d, NOBLE, n, B("j", "x2"), R1, Zero32, Raw(1, 20))],
    [type |-> "ReceiveMessage", from |-> "a2", att |-> AttEnc(s, "v01"),
     wire |-> WireMsg(0, d, NOBLE, n, B("j", "x2"), R1, Pad("a2"), Raw(2, 40))] }

Admin ==
  { [type |-> "PauseBurningAndMinting", from |-> "a1"], [type |-> "UnpauseBurningAndMinting", from |-> "a1"],
    [type |-> "PauseSendingAndReceivingMessages", from |-> "a1"], [type |-> "UnpauseSendingAndReceivingMessages", from |-> "a1"],
    [type |-> "DisableAttester", from |-> "a1", att |-> A("k1")], [type |-> "EnableAttester", from |-> "a1", att |-> A("k1")],
    [type |-> "UnlinkTokenPair", from |-> "a1", d |-> "d1", tok |-> T1],
    [type |-> "LinkTokenPair", from |-> "a1", d |-> "d1", tok |-> T1, denom |-> MINT] }

\* neighbouring keys: other domain, next nonce, and nonces that differ from 0 only above bit 32 / bit 63
\* (abstract nonces 1000.. and 2000.. stand for base + 2^32 + k and base + 2^63 + k)
One(s, d, n) == CHOOSE m \in Variants(s, d, n) : m.from = "a1" /\ m.wire.rcpt = R1
MCMsgs(s, h) == Variants(s, "d1", 0) \cup (IF Thorough THEN Variants(s, "d2", 0) \cup Variants(s, "d1", 1) \cup {One(s, "d1", 1000), One(s, "d1", 2000)}
                                           ELSE {One(s, "d2", 0), One(s, "d1", 1), One(s, "d1", 1000), One(s, "d1", 2000), One(s, "d3", 47)}) \cup Admin

Init == InitOver(MCInit)
Next == NextOver(MCMsgs, IF Thorough THEN 5 ELSE 4)
Spec == Init /\ [][Next]_vars

UsedMonotone == [][st.used \subseteq st'.used]_vars
FailedFree   == [][(Ended /\ last'.res = "err") => st'.used = st.used]_vars
\* state identity for the search: the committed state and the receive log (not the step counter)
ReplayView == <<st, tx, hist.recv>>
=============================================================================
