SPECIFICATION Spec
CONSTANTS
  Accounts <- AllAccounts
  Thorough = TRUE
VIEW ReplayView
INVARIANTS HistoryOK ModuleAccountEmpty ThresholdInv
PROPERTIES SpecSatisfiesLenses StepwiseIsRun UsedMonotone FailedFree
ACTION_CONSTRAINT EmitEdge
CHECK_DEADLOCK FALSE
