SPECIFICATION Spec
CONSTANTS
  MintLower = "MINT"
  Accounts <- AllAccounts
  Thorough = FALSE

INVARIANTS HistoryOK ModuleAccountEmpty 
PROPERTIES SpecSatisfiesLenses StepwiseIsRun Total
ACTION_CONSTRAINT EmitEdge
CHECK_DEADLOCK FALSE
