SPECIFICATION Spec
CONSTANTS
  MintLower = "MINT"
  Accounts <- AllAccounts
  Thorough = TRUE
VIEW OutView
INVARIANTS HistoryOK ModuleAccountEmpty ThresholdInv
PROPERTIES SpecSatisfiesLenses StepwiseIsRun NonceRules
ACTION_CONSTRAINT EmitEdge
CHECK_DEADLOCK FALSE
