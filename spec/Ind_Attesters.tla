--------------------------- MODULE Ind_Attesters ---------------------------
(* C13 as an inductive invariant, for Apalache: the three attester-manager  *)
(* rules over an attester-string universe that TLC cannot enumerate.        *)
(* The rules are those of CCTP.tla (HEnableAttester, HDisableAttester,      *)
(* HUpdateThreshold) restricted to the attester manager as submitter and    *)
(* usable strings; MC_Attesters.tla checks with TLC that every edge of      *)
(* CCTP.tla's handlers is a step of this Next (AttesterRulesRefine).        *)
EXTENDS Integers, FiniteSets

CONSTANT
  \* @type: Set(Str);
  Strings

VARIABLES
  \* @type: Set(Str);
  atts,
  \* @type: Int;
  thr

CInit == Strings = {"s1", "s2", "s3", "s4", "s5", "s6", "s7", "s8", "s9", "s10"}

\* @type: (Str) => Bool;
Enable(a)  == a \notin atts /\ atts' = atts \cup {a} /\ thr' = thr
\* @type: (Str) => Bool;
Disable(a) == a \in atts /\ Cardinality(atts) # 1 /\ Cardinality(atts) > thr /\ atts' = atts \ {a} /\ thr' = thr
\* @type: (Int) => Bool;
Update(n)  == n # 0 /\ n # thr /\ n <= Cardinality(atts) /\ thr' = n /\ atts' = atts
Rejected   == atts' = atts /\ thr' = thr

Next == \/ \E a \in Strings : Enable(a) \/ Disable(a)
        \/ \E n \in 0..11 : Update(n)
        \/ Rejected

Inv == atts \subseteq Strings /\ 1 <= thr /\ thr <= Cardinality(atts)
Init == atts \in SUBSET Strings /\ thr \in 0..11 /\ Inv
=============================================================================
