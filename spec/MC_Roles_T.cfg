SPECIFICATION Spec
CONSTANTS
  MintLower = "MINT"
  Accounts <- AllAccounts
  Thorough = TRUE
VIEW RoleView
INVARIANTS HistoryOK ModuleAccountEmpty ThresholdInv
PROPERTIES SpecSatisfiesLenses StepwiseIsRun RoleLifecycle
ACTION_CONSTRAINT EmitEdge
CHECK_DEADLOCK FALSE
