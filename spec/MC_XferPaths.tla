---------------------------- MODULE MC_XferPaths ----------------------------
(* C02 / C03 / C04 / C05 / C07 / C14 / C18 over HISTORIES: every sequence   *)
(* (bounded length) of receives of one (source domain, nonce) in two        *)
(* shapes, deposits and a replacement of the last outbound message, each    *)
(* also with a failing ledger call, merely simulated, or inside a           *)
(* multi-message transaction that fails; with pausing in between.  A        *)
(* transfer that failed or was discarded must leave nothing behind -- in    *)
(* the store or anywhere else -- that changes the fate of the next attempt. *)
EXTENDS MCPaths

Start == [BaseState EXCEPT !.bal = [@ EXCEPT !["a1"] = 6], !.supply = 10, !.limits = {}]

R1m(s) == [type |-> "ReceiveMessage", from |-> "a1", att |-> HonestAtt(s), wire |-> BurnIn(0, Zero32, 1, Pad("a3"))]
R2m(s) == [type |-> "ReceiveMessage", from |-> "a2", att |-> HonestAtt(s), wire |-> PlainIn(0, Zero32)]
Dep    == [type |-> "DepositForBurn", from |-> "a1", amt |-> 1, dst |-> "d1", mrcpt |-> B("j", "x1"), tok |-> MINT]
Snd    == [type |-> "SendMessage", from |-> "a2", dst |-> "d1", rcpt |-> R1, body |-> Raw(1, 10)]
Repl(s, h) == IF h.outbox = <<>> THEN {} ELSE
  LET o == h.outbox[Len(h.outbox)] IN
  { IF o.msg.body.k = "burn"
    THEN [type |-> "ReplaceDepositForBurn", from |-> "a1", orig |-> o.msg, att |-> HonestAtt(s), mrcpt |-> Pad("a2"), caller |-> Zero32]
    ELSE [type |-> "ReplaceMessage", from |-> "a2", orig |-> o.msg, att |-> HonestAtt(s), body |-> Raw(2, 12), caller |-> Zero32] }

\* <<message, fault schedule>> pairs
Steps(s, h) ==
       {<<R1m(s), <<>>>>, <<R1m(s), <<FALSE>>>>, <<R2m(s), <<>>>>, <<Sim(R1m(s)), <<>>>>, <<Bat(R1m(s)), <<>>>>,
        <<Dep, <<>>>>, <<Dep, <<FALSE>>>>, <<Dep, <<TRUE, FALSE>>>>, <<Sim(Dep), <<>>>>, <<Bat(Dep), <<>>>>, <<Snd, <<>>>>, <<Sim(Snd), <<>>>>,
        <<[type |-> "PauseBurningAndMinting", from |-> "a1"], <<>>>>, <<[type |-> "UnpauseBurningAndMinting", from |-> "a1"], <<>>>>}
  \cup {<<m, <<>>>> : m \in Repl(s, h)}
Depth == IF Thorough THEN 4 ELSE 3

Init == PInit(Start)
Next == (\E x \in Steps(st, hist) : PStepF(x[1], x[2], Depth)) \/ PDone(Start, Depth)
Spec == Init /\ [][Next]_pvars
=============================================================================
