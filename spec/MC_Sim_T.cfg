SPECIFICATION Spec
CONSTANTS
  MintLower = "MINT"
  Accounts <- AllAccounts
  Thorough = FALSE
  MaxDepth = 80
INVARIANTS HistoryOK ModuleAccountEmpty ThresholdInv
CHECK_DEADLOCK FALSE
