SPECIFICATION Spec
CONSTANTS
  Accounts <- AllAccounts
  Thorough = FALSE
  MaxDepth = 80
INVARIANTS HistoryOK ModuleAccountEmpty ThresholdInv
CHECK_DEADLOCK FALSE
