--------------------------- MODULE MC_Attesters ---------------------------
(* C13: from EVERY state with 1 <= threshold <= |attesters| over a finite   *)
(* universe of attester strings, every enable / disable / threshold update, *)
(* by the attester manager and by someone else, accepted or rejected.       *)
EXTENDS MCBase

Strings == IF Thorough
           THEN {A("k1"), [key |-> "k1", sp |-> "0x"], A("k2"), [key |-> "k3", sp |-> "odd"], [key |-> "k4", sp |-> "UP"], A("junk1")}
           ELSE {A("k1"), [key |-> "k1", sp |-> "0x"], A("k2"), A("k3")}
Invalid == {[key |-> "none", sp |-> "empty"], [key |-> "none", sp |-> "0xonly"], [key |-> "none", sp |-> "nothex"]}

MCInit == {[BaseState EXCEPT !.attesters = S, !.threshold = t, !.attMgr = "a2"] :
             <<S, t>> \in {<<S, t>> \in (SUBSET Strings) \X (1..Cardinality(Strings)) : S # {} /\ t <= Cardinality(S)}}

MCMsgs(s, h) ==
       [type : {"EnableAttester", "DisableAttester"}, from : {"a1", "a2"}, att : Strings \cup Invalid \cup {A("k5")}]
  \cup [type : {"UpdateSignatureThreshold"}, from : {"a1", "a2"}, amt : 0..(Cardinality(Strings) + 1) \cup {1000000, 1000001, 2000000}]   \* (2^31, 2^31+1, 2^32-1)

\* every transition of CCTP.tla's handlers on (attesters, threshold) is a step of Ind_Attesters.tla's Next, whose
\* inductive invariant Apalache discharges for a larger universe (so that result speaks about these handlers)
IndStep(a, t, a2, t2) ==
  \/ \E x \in Strings \cup {A("k5")} : x \notin a /\ a2 = a \cup {x} /\ t2 = t
  \/ \E x \in a : Cardinality(a) # 1 /\ Cardinality(a) > t /\ a2 = a \ {x} /\ t2 = t
  \/ \E n \in 0..20 : n # 0 /\ n # t /\ n <= Cardinality(a) /\ t2 = n /\ a2 = a
  \/ (a2 = a /\ t2 = t)
AttesterRulesRefine == [][Ended => IndStep(st.attesters, st.threshold, st'.attesters, st'.threshold)]_vars

Init == InitOver(MCInit)
Next == NextOver(MCMsgs, 1000)
Spec == Init /\ [][Next]_vars
\* the reachable set is closed: nothing outside the initial set (plus k5 enabled) is ever reached with the invariant broken

=============================================================================
