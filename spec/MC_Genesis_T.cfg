SPECIFICATION Spec
CONSTANTS
  MintLower = "MINT"
  Accounts = {"a1","a2","a3","a4","a5","a6","a7","a8"}
  Thorough = TRUE
INVARIANTS RoundTrip NoOverwrite ExportImport
CHECK_DEADLOCK FALSE
