----------------------------- MODULE MC_Registry -----------------------------
(* C19 / C15: the five registries as exact maps.  Add / remove / set over   *)
(* keys that collide, neighbour each other (same domain other token, same   *)
(* token other domain) or differ only in spelling / letter case; closure to *)
(* a bounded depth from an empty and from a populated configuration.        *)
EXTENDS MCBase

Populated == [BaseState EXCEPT !.pairs = {[d |-> "d1", t |-> T1, denom |-> MINT], [d |-> "d2", t |-> T1, denom |-> MINT]},
                               !.msgrs = {[d |-> "d1", addr |-> M1], [d |-> "d2", addr |-> M2]},
                               !.limits = {[denom |-> MINT, amt |-> 2], [denom |-> "OTHER", amt |-> 1]},
                               !.attesters = {A("k1"), A("k2"), [key |-> "k1", sp |-> "0x"]},
                               !.used = {[d |-> "d1", n |-> 0], [d |-> "d2", n |-> 1]}]
EmptyReg  == [BaseState EXCEPT !.pairs = {}, !.msgrs = {}, !.limits = {}, !.attesters = {A("k1")}, !.used = {}]
MCInit == {Populated, EmptyReg}

Doms == {"d1", "d2"}
Toks == {T1, T2} \cup (IF Thorough THEN {Pad("t1"), Bytes(31, "junk")} ELSE {})
MCMsgs(s, h) ==
       [type : {"LinkTokenPair"}, from : {"a1"}, d : Doms, tok : Toks, denom : {MINT, "MINT_UP"}]
  \cup [type : {"UnlinkTokenPair"}, from : {"a1"}, d : Doms, tok : Toks]
  \cup [type : {"AddRemoteTokenMessenger"}, from : {"a1"}, d : Doms, addr : {M1} \cup (IF Thorough THEN {Zero32, Bytes(31, "junk")} ELSE {})]
  \cup [type : {"RemoveRemoteTokenMessenger"}, from : {"a1"}, d : Doms]
  \cup [type : {"SetMaxBurnAmountPerMessage"}, from : {"a1"}, denom : {MINT, "MINT_UP", "OTHER"}, amt : {0, 3} \cup (IF Thorough THEN {ABSENT, -1} ELSE {})]
  \cup [type : {"EnableAttester", "DisableAttester"}, from : {"a1"}, att : {A("k2"), [key |-> "k2", sp |-> "UP"], A("k3")}]
  \cup {[type |-> "ReceiveMessage", from |-> "a1", wire |-> WireMsg(0, d, NOBLE, n, B("j", "x2"), R1, Zero32, Raw(1, 20)), att |-> HonestAtt(s)]
          : d \in Doms, n \in {0, 1}}

Init == InitOver(MCInit)
Next == NextOver(MCMsgs, IF Thorough THEN 4 ELSE 3)
Spec == Init /\ [][Next]_vars

\* C19 on the model: a successful add creates exactly one entry, a successful removal deletes exactly
\* that entry, and nothing else in any registry moves
Regs(s) == <<s.attesters, s.limits, s.pairs, s.msgrs, s.used>>
ExactMap ==
  [][Ended =>
      LET m == last'.msg IN
      IF last'.res = "err" THEN Regs(st') = Regs(st) ELSE
      CASE m.type = "LinkTokenPair" ->
             /\ ~HasPair(st, m.d, m.tok)
             /\ st'.pairs = st.pairs \cup {[d |-> m.d, t |-> m.tok, denom |-> MINT]}
             /\ Cardinality(st'.pairs) = Cardinality(st.pairs) + 1
        [] m.type = "UnlinkTokenPair" ->
             /\ HasPair(st, m.d, m.tok) /\ ~HasPair(st', m.d, m.tok)
             /\ Cardinality(st'.pairs) = Cardinality(st.pairs) - 1 /\ st'.pairs \subseteq st.pairs
        [] m.type = "AddRemoteTokenMessenger" ->
             /\ ~HasMsgr(st, m.d) /\ st'.msgrs = st.msgrs \cup {[d |-> m.d, addr |-> m.addr]}
        [] m.type = "RemoveRemoteTokenMessenger" ->
             /\ HasMsgr(st, m.d) /\ st'.msgrs = st.msgrs \ {MsgrOf(st, m.d)}
        [] m.type = "SetMaxBurnAmountPerMessage" ->
             /\ HasLimit(st', Lower(m.denom)) /\ LimitOf(st', Lower(m.denom)) = StoredAmt(m.amt)
             /\ {x \in st'.limits : x.denom # Lower(m.denom)} = {x \in st.limits : x.denom # Lower(m.denom)}
             /\ Cardinality({x \in st'.limits : x.denom = Lower(m.denom)}) = 1
        [] m.type = "EnableAttester"  -> m.att \notin st.attesters /\ st'.attesters = st.attesters \cup {m.att}
        [] m.type = "DisableAttester" -> m.att \in st.attesters /\ st'.attesters = st.attesters \ {m.att}
        [] m.type = "ReceiveMessage"  -> st'.used = st.used \cup {[d |-> m.wire.src, n |-> m.wire.nonce]}
        [] OTHER -> TRUE]_vars
WriteSetConfined ==
  [][Ended => KeysChanged(st, st') \subseteq (IF last'.res = "ok" THEN AllowedWrites(last'.msg) ELSE {})]_vars
=============================================================================
