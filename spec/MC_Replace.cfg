SPECIFICATION Spec
CONSTANTS
  MintLower = "MINT"
  Accounts <- AllAccounts
  Thorough = FALSE

INVARIANTS HistoryOK ModuleAccountEmpty ThresholdInv
PROPERTIES SpecSatisfiesLenses StepwiseIsRun ReplaceTouchesNothing ReplaceOnlyOwnAttested
ACTION_CONSTRAINT EmitEdge
CHECK_DEADLOCK FALSE
