SPECIFICATION Spec
CONSTANTS
  MintLower = "MINT"
  Accounts = {"a1","a2","a3","a4","a5","a6","a7","a8"}
CHECK_DEADLOCK FALSE
