SPECIFICATION Spec
CONSTANTS
  MintLower = "MINT"
  Accounts <- AllAccounts
  Thorough = FALSE
  MaxDepth = 30
INVARIANTS HistoryOK ModuleAccountEmpty ThresholdInv
CHECK_DEADLOCK FALSE
