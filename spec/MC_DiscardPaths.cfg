SPECIFICATION Spec
CONSTANTS
  MintLower = "MINT"
  Accounts <- AllAccounts
  Thorough = FALSE
INVARIANTS ModuleAccountEmpty HistoryOK

CHECK_DEADLOCK FALSE
