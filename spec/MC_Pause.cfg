SPECIFICATION Spec
CONSTANTS
  Accounts <- AllAccounts
  Thorough = FALSE

INVARIANTS HistoryOK ModuleAccountEmpty ThresholdInv
PROPERTIES SpecSatisfiesLenses StepwiseIsRun FlagChangeOnlyByPauser MatrixExact
ACTION_CONSTRAINT EmitEdge
CHECK_DEADLOCK FALSE
