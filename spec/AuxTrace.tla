------------------------------ MODULE AuxTrace ------------------------------
(* Validation of two kinds of observations that are not transaction         *)
(* histories:                                                               *)
(*  "det"  (C18): per history, the per-step digests (response bytes, event  *)
(*         bytes, store root hash) recorded by each replica.  The           *)
(*         specification's transition relation is a function (Run), so all  *)
(*         replicas of one history must report the same sequence.           *)
(*  "misc" (C20): non-transaction calls (queries with hostile requests, CLI *)
(*         address parsing) -- totality: the outcome is ok or err.          *)
EXTENDS Integers, Sequences, FiniteSets, TLC, Json, IOUtils

VARIABLES i, done
TraceFile == IF "TRACE_FILE" \in DOMAIN IOEnv THEN IOEnv.TRACE_FILE ELSE "aux.ndjson"
Rs == ndJsonDeserialize(TraceFile)

Fails(r) ==
  CASE r.kind = "det" ->
         {"C18:diverges:" \o name : name \in {n \in DOMAIN r.replicas : r.replicas[n] # r.replicas.first}}
         \cup (IF Len(r.replicas.first) # r.steps + 1 THEN {"C18:incomplete"} ELSE {})
    [] r.kind \in {"query", "cli"} ->
         IF r.res \in {"ok", "err"} THEN {} ELSE {"C20:" \o r.kind \o ":" \o r.name \o ":" \o r.class}

Init == i \in 1..Len(Rs) /\ done = FALSE
Next == ~done /\ done' = TRUE /\ i' = i /\ PrintT(ToJson([id |-> Rs[i].id, kind |-> Rs[i].kind, fails |-> Fails(Rs[i])]))
Spec == Init /\ [][Next]_<<i, done>>
=============================================================================
