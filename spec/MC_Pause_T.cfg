SPECIFICATION Spec
CONSTANTS
  MintLower = "MINT"
  Accounts <- AllAccounts
  Thorough = TRUE

INVARIANTS HistoryOK ModuleAccountEmpty ThresholdInv
PROPERTIES SpecSatisfiesLenses StepwiseIsRun FlagChangeOnlyByPauser MatrixExact
ACTION_CONSTRAINT EmitEdge
CHECK_DEADLOCK FALSE
