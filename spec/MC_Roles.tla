----------------------------- MODULE MC_Roles -----------------------------
(* C10 / C11 / C15: closure of the role states under all 25 transaction    *)
(* types submitted by every account of the universe.                        *)
EXTENDS MCBase

MCAccounts == IF Thorough THEN {"a1", "a2", "a3", "a4"} ELSE {"a1", "a2", "a3"}

\* (a chain whose genesis left the delegated roles empty: nobody holds them until the owner appoints someone)
MCInit == {BaseState, [BaseState EXCEPT !.pauser = "EMPTY", !.tokCtl = "EMPTY"]}

NewHolders == MCAccounts \cup {"GARBAGE", "EMPTY_PAYLOAD"} \cup (IF Thorough THEN {"LONG_PAYLOAD", "BAD_CHECKSUM"} ELSE {})

AdminMsgs(from) ==
       [type : {"UpdateOwner", "UpdateAttesterManager", "UpdatePauser", "UpdateTokenController"},
        from : {from}, new : NewHolders]
  \cup [type : {"UpdatePauser"}, from : {from}, new : {"p1"}]    \* a holder sharing 20 bytes with a1
  \cup [type : {"AcceptOwner"} \cup PauserTypes, from : {from}]
  \cup [type : {"UpdateMaxMessageBodySize"}, from : {from}, size : {150}]
  \cup [type : {"AddRemoteTokenMessenger"}, from : {from}, d : {"d2"}, addr : {B("j", "m2")}]
  \cup [type : {"RemoveRemoteTokenMessenger"}, from : {from}, d : {"d1"}]
  \cup [type : {"EnableAttester"}, from : {from}, att : {[key |-> "k3", sp |-> "hex"]}]
  \cup [type : {"DisableAttester"}, from : {from}, att : {[key |-> "k2", sp |-> "hex"]}]
  \cup [type : {"UpdateSignatureThreshold"}, from : {from}, amt : {2}]
  \cup [type : {"LinkTokenPair"}, from : {from}, d : {"d2"}, tok : {B("j", "t2")}, denom : {MINT}]
  \cup [type : {"UnlinkTokenPair"}, from : {from}, d : {"d1"}, tok : {B("j", "t1")}]
  \cup [type : {"SetMaxBurnAmountPerMessage"}, from : {from}, denom : {MINT}, amt : {1}]

UserMsgs(from) ==
       [type : {"SendMessage"}, from : {from}, dst : {"d1"}, rcpt : {B("j", "r1")}, body : {Raw(1, 10)}]
  \cup [type : {"DepositForBurn"}, from : {from}, amt : {1}, dst : {"d1"}, mrcpt : {B("j", "x1")}, tok : {MINT}]

\* the account that shares its first 20 bytes with a1 tries the pauser's and the owner's actions
P1Msgs == [type : PauserTypes \cup {"AcceptOwner"}, from : {"p1"}]
          \cup [type : {"UpdatePauser", "UpdateOwner"}, from : {"p1"}, new : {"a2"}]
MCMsgs(s, h) == UNION {AdminMsgs(a) \cup UserMsgs(a) : a \in MCAccounts} \cup P1Msgs

\* One representative of the non-role part of the state per role assignment.
RoleView == <<st.owner, st.pending, st.attMgr, st.pauser, st.tokCtl, tx>>

Init == InitOver(MCInit)
Next == NextOver(MCMsgs, 1000)
Spec == Init /\ [][Next]_vars

=============================================================================
