SPECIFICATION Spec
CONSTANTS
  Accounts <- MCAccounts
VIEW RoleView
INVARIANTS HistoryOK ModuleAccountEmpty ThresholdInv
PROPERTIES SpecSatisfiesLenses StepwiseIsRun RoleLifecycle
ACTION_CONSTRAINT EmitEdge
CHECK_DEADLOCK FALSE
