--------------------------- MODULE MC_DiscardPaths ---------------------------
(* All properties over HISTORIES with DISCARDED branches.  Every write to a *)
(* registry or parameter (attesters, threshold, token pairs, messengers,    *)
(* burn limit, body size) is taken plain, merely simulated, inside a        *)
(* transaction whose last message fails, and inside a transaction in which  *)
(* a second message READS the same entry and then fails -- the shapes that  *)
(* leave a stale value in any memory kept outside the store -- followed by  *)
(* probes whose fate depends on that entry: receives attested by the        *)
(* would-be attester, receives / deposits through the would-be pair,        *)
(* messenger, limit and size.                                               *)
EXTENDS MCPaths

Start == [BaseState EXCEPT !.bal = [@ EXCEPT !["a1"] = 6], !.supply = 10, !.limits = {[denom |-> MINT, amt |-> 3]},
                           !.attesters = {A("k1"), [key |-> "k2", sp |-> "0x"]}, !.threshold = 1]   \* (one attester enabled under the 0x spelling)

Bat2(w, r) == [type |-> "Batch", msgs |-> <<w, r>>]

\* <<write, a message that reads the same entry and then fails>>
Writes ==
  { <<[type |-> "EnableAttester", from |-> "a1", att |-> A("k3")],  [type |-> "UpdateSignatureThreshold", from |-> "a1", amt |-> 9]>>,
    <<[type |-> "DisableAttester", from |-> "a1", att |-> [key |-> "k2", sp |-> "0x"]], [type |-> "UpdateSignatureThreshold", from |-> "a1", amt |-> 9]>>,
    <<[type |-> "UpdateSignatureThreshold", from |-> "a1", amt |-> 2], [type |-> "UpdateSignatureThreshold", from |-> "a1", amt |-> 2]>>,
    <<[type |-> "LinkTokenPair", from |-> "a1", d |-> "d2", tok |-> T1, denom |-> MINT],
      [type |-> "LinkTokenPair", from |-> "a1", d |-> "d2", tok |-> T1, denom |-> MINT]>>,
    <<[type |-> "UnlinkTokenPair", from |-> "a1", d |-> "d1", tok |-> T1], [type |-> "UnlinkTokenPair", from |-> "a1", d |-> "d1", tok |-> T1]>>,
    <<[type |-> "AddRemoteTokenMessenger", from |-> "a1", d |-> "d2", addr |-> M2],
      [type |-> "AddRemoteTokenMessenger", from |-> "a1", d |-> "d2", addr |-> M2]>>,
    <<[type |-> "RemoveRemoteTokenMessenger", from |-> "a1", d |-> "d1"], [type |-> "RemoveRemoteTokenMessenger", from |-> "a1", d |-> "d1"]>>,
    <<[type |-> "SetMaxBurnAmountPerMessage", from |-> "a1", denom |-> MINT, amt |-> 1],
      [type |-> "DepositForBurn", from |-> "a1", amt |-> 5, dst |-> "d1", mrcpt |-> B("j", "x1"), tok |-> MINT]>>,
    <<[type |-> "UpdateMaxMessageBodySize", from |-> "a1", size |-> 131],
      [type |-> "SendMessage", from |-> "a2", dst |-> "d1", rcpt |-> R1, body |-> Raw(1, 4000)]>> }

Steps(s) ==
  UNION {{w[1], Sim(w[1]), Bat(w[1]), Bat2(w[1], w[2])} : w \in Writes}

RecvM(s, d, n, att) == [type |-> "ReceiveMessage", from |-> "a1", att |-> att,
                        wire |-> WireMsg(0, d, NOBLE, n, IF d = "d1" THEN M1 ELSE M2, ModulePadded, Zero32, BurnBody(0, T1, Pad("a3"), 1, Pad("x2")))]
Probes(s, h) ==
  { RecvM(s, "d1", h.steps, HonestAtt(s)), RecvM(s, "d1", h.steps, Att(<<Sg("k3")>>)), RecvM(s, "d1", h.steps, Att(<<Sg("k2")>>)),
    RecvM(s, "d1", h.steps, Att(<<Sg("k1"), Sg("k3")>>)), RecvM(s, "d2", h.steps, HonestAtt(s)),
    [type |-> "DepositForBurn", from |-> "a1", amt |-> 2, dst |-> "d1", mrcpt |-> B("j", "x1"), tok |-> MINT],
    [type |-> "DepositForBurn", from |-> "a1", amt |-> 1, dst |-> "d2", mrcpt |-> B("j", "x1"), tok |-> MINT],
    [type |-> "ReplaceMessage", from |-> "a1", orig |-> PlainOut("a1", 0), att |-> Att(<<Sg("k3")>>), body |-> Raw(2, 12), caller |-> Zero32],
    [type |-> "ReplaceMessage", from |-> "a1", orig |-> PlainOut("a1", 0), att |-> HonestAtt(s), body |-> Raw(2, 12), caller |-> Zero32] }

Depth == IF Thorough THEN 4 ELSE 3
\* the last step of a path is a probe, the steps before it are writes in their four shapes
Init == PInit(Start)
Next == \/ (Len(trace) < Depth - 1 /\ \E m \in Steps(st) : PStep(m, Depth))
        \/ (Len(trace) = Depth - 1 /\ \E m \in Probes(st, hist) : PStep(m, Depth))
        \/ PDone(Start, Depth)
Spec == Init /\ [][Next]_pvars
=============================================================================
