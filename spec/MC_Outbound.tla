----------------------------- MODULE MC_Outbound -----------------------------
(* C07 / C05 / C06 / C09 over histories: every interleaving (to a bounded   *)
(* depth) of the four producing transaction types, failing attempts,        *)
(* ledger failures and replacements of messages that are actually in the    *)
(* outbox, by two users, from several starting counters.                    *)
EXTENDS MCBase

\* starting counters: 0, an arbitrary one, and 3498 = 2^32 - 2 (abstract nonces 3000.. are the absolute range
\* around 2^32, so the histories below cross the 32-bit boundary)
MCInit == {[BaseState EXCEPT !.nextNonce = n, !.limits = {}] : n \in (IF Thorough THEN {0, 7, 3498} ELSE {0, 3498})}

Users == {"a1", "a2"}
Producers(u) ==
  { [type |-> "SendMessage", from |-> u, dst |-> "d1", rcpt |-> R1, body |-> Raw(1, 10)],
    [type |-> "SendMessage", from |-> u, dst |-> "d2", rcpt |-> M1, body |-> BurnBody(0, KTok(MINT), Pad(u), 5, Pad(u))],  \* hand-made burn-shaped body to the messenger
    [type |-> "SendMessage", from |-> u, dst |-> "d1", rcpt |-> R1, body |-> Raw(1, 201)],                               \* fails: too large
    [type |-> "SendMessageWithCaller", from |-> u, dst |-> "d1", rcpt |-> R1, body |-> Raw(1, 10), caller |-> B("j", "x1")],
    [type |-> "DepositForBurn", from |-> u, amt |-> 1, dst |-> "d1", mrcpt |-> B("j", "x1"), tok |-> MINT],
    [type |-> "DepositForBurn", from |-> u, amt |-> 2, dst |-> "d2", mrcpt |-> B("j", "x1"), tok |-> MINT],             \* fails: no messenger
    [type |-> "DepositForBurnWithCaller", from |-> u, amt |-> 2, dst |-> "d1", mrcpt |-> Pad("a3"), tok |-> MINT, caller |-> B("j", "x2")] }

\* replacements of what is in the outbox, attested by the honest service, by either user
Replacements(s, h, u) ==
  UNION { { [type |-> "ReplaceMessage", from |-> u, orig |-> h.outbox[i].msg, att |-> HonestAtt(s), body |-> Raw(2, 12), caller |-> B("j", "x2")],
            [type |-> "ReplaceDepositForBurn", from |-> u, orig |-> h.outbox[i].msg, att |-> HonestAtt(s), mrcpt |-> Pad("a2"), caller |-> Zero32] }
          : i \in DOMAIN h.outbox }

Admin == { [type |-> "PauseSendingAndReceivingMessages", from |-> "a1"], [type |-> "UnpauseSendingAndReceivingMessages", from |-> "a1"] }

MCMsgs(s, h) == UNION {Producers(u) \cup Replacements(s, h, u) : u \in Users} \cup (IF Thorough THEN Admin ELSE {})

Init == InitOver(MCInit)
Next == NextOver(MCMsgs, IF Thorough THEN 4 ELSE 3)
Spec == Init /\ [][Next]_vars

\* C07 on the model
NonceRules ==
  [][Ended => LET fresh == last'.msg.type \in FreshTypes /\ last'.res = "ok" IN
       /\ st'.nextNonce = st.nextNonce + (IF fresh THEN 1 ELSE 0)
       /\ fresh => (last'.resp.nonce = st.nextNonce /\ SentMsgs(last'.evs)[1].nonce = st.nextNonce)
       /\ (last'.msg.type \in ReplTypes /\ last'.res = "ok") => SentMsgs(last'.evs)[1].nonce = last'.msg.orig.nonce]_vars
OutView == <<st, tx, hist.outbox, hist.burned, hist.minted>>
=============================================================================
