----------------------------- MODULE MC_Attest -----------------------------
(* C01: for every enabled-attester set over a small key universe and every  *)
(* threshold, every honest attestation (each increasing sequence of keys)   *)
(* and every single adversarial deviation from it, presented to the         *)
(* verifier through receive-message and replace-message.                    *)
EXTENDS MCBase

Cand    == IF Thorough THEN {"k1", "k2", "k3", "k4"} ELSE {"k1", "k2", "k3"}     \* keys that may be enabled
Foreign == IF Thorough THEN "k5" ELSE "k4"                                        \* a real key that never is
KeySet  == Cand \cup {Foreign}

Plain == {[BaseState EXCEPT !.attesters = {A(k) : k \in S}, !.threshold = t] :
            <<S, t>> \in {<<S, t>> \in (SUBSET Cand) \X (1..Cardinality(Cand)) : S # {} /\ t <= Cardinality(S)}}
\* accepted spellings of the same keys, a key registered twice under two spellings, a junk entry
Spelled == {[BaseState EXCEPT !.attesters = {[key |-> "k1", sp |-> "0x"], [key |-> "k2", sp |-> "UP"]}, !.threshold = 2],
            [BaseState EXCEPT !.attesters = {A("k1"), [key |-> "k1", sp |-> "0X"], A("k2")}, !.threshold = 2],
            [BaseState EXCEPT !.attesters = {A("k1"), [key |-> "k1", sp |-> "0x"]}, !.threshold = 2],
            [BaseState EXCEPT !.attesters = {A("junk1"), A("k2")}, !.threshold = 1],
            [BaseState EXCEPT !.attesters = {[key |-> "k1", sp |-> "odd"], [key |-> "k3", sp |-> "0xodd"]}, !.threshold = 2]}
MCInit == Plain \cup Spelled

Base(q)  == [i \in 1..Len(q) |-> Sg(q[i])]
Ins(s, i, x) == SubSeq(s, 1, i) \o <<x>> \o SubSeq(s, i + 1, Len(s))
Honest   == {Base(SortedKeys(S)) : S \in SUBSET KeySet}
BadEncs  == {"v2728", "hs01", "hs2728", "badv", "zero"}
Deviate(b) ==
       {[b EXCEPT ![i].enc = e] : i \in 1..Len(b), e \in BadEncs}
  \cup {[b EXCEPT ![i].over = "other"] : i \in 1..Len(b)}
  \cup {[b EXCEPT ![i] = b[i + 1], ![i + 1] = b[i]] : i \in 1..(Len(b) - 1)}
  \cup {Ins(b, i, [b[i] EXCEPT !.enc = e]) : i \in 1..Len(b), e \in {"v01", "hs01", "v2728"}}
AllSeqs(n) == UNION {[1..k -> KeySet] : k \in 0..n}
SigSeqs == Honest \cup UNION {Deviate(b) : b \in Honest}
                  \cup (IF Thorough THEN {Base(q) : q \in AllSeqs(3)} ELSE {})
Atts == {Att(b) : b \in SigSeqs} \cup {[sigs |-> b, pad |-> p] : b \in Honest, p \in {-1, 1}}

MCMsgs(s, h) ==
       {[type |-> "ReceiveMessage", from |-> "a1", wire |-> PlainIn(0, Zero32), att |-> a] : a \in Atts}
  \cup {[type |-> "ReplaceMessage", from |-> "a1", orig |-> PlainOut("a1", 0), att |-> a, body |-> Raw(2, 12), caller |-> Zero32] : a \in Atts}

Init == InitOver(MCInit)
Next == NextOver(MCMsgs, 1)
Spec == Init /\ [][Next]_vars

\* C01 on the model, stated directly: the verifier's loop accepts exactly the quorum attestations
VerifierIsQuorum ==
  [][Ended => LET a == last'.msg.att IN
        AttestOK(st.attesters, st.threshold, a) <=> AttestDecl(st.attesters, st.threshold, a)]_vars
=============================================================================
