------------------------------- MODULE MC_Sim -------------------------------
(* SIM_Full: everything enabled over medium constants; used with            *)
(* `tlc -simulate`: TLC walks random behaviours of the specification from   *)
(* genesis; each finished behaviour is printed as one JSON history          *)
(* {init, events:[{msg, faults}]} and replayed as a whole on the real code. *)
EXTENDS MCBase

VARIABLE trace        \* the transactions of this behaviour, in order
svars == <<st, tx, hist, last, trace>>

SimInit == [BaseState EXCEPT !.attesters = {A("k1"), A("k2"), A("k3")}, !.threshold = 2,
                             !.attMgr = "a2", !.pauser = "a3", !.tokCtl = "a2",
                             !.msgrs = {[d |-> "d1", addr |-> M1], [d |-> "d2", addr |-> M2]},
                             !.bal = [a \in AddrSyms |-> IF a \in {"a1", "a2", "a3"} THEN 5 ELSE 0], !.supply = 15]

Users == {"a1", "a2", "a3"}
FreshIn(s, d) == CHOOSE n \in 0..60 : [d |-> d, n |-> n] \notin s.used
AnyAtt(s) == {HonestAtt(s), Att(<<Sg("k1"), Sg("k3")>>)}

UserMsgs(s, h, u) ==
       [type : {"SendMessage"}, from : {u}, dst : {"d1", "d2"}, rcpt : {R1, Zero32}, body : {Raw(1, 10), Raw(1, 201)}]
  \cup [type : {"SendMessageWithCaller"}, from : {u}, dst : {"d1"}, rcpt : {R1}, body : {Raw(1, 10)}, caller : {B("j", "x1"), Zero32}]
  \cup [type : {"DepositForBurn"}, from : {u}, amt : {0, 1, 3}, dst : {"d1", "d3"}, mrcpt : {B("j", "x1")}, tok : {MINT}]
  \cup [type : {"DepositForBurnWithCaller"}, from : {u}, amt : {1}, dst : {"d1"}, mrcpt : {B("j", "x1")}, tok : {MINT}, caller : {B("j", "x2"), Bytes(31, "junk")}]
  \cup UNION {{[type |-> "ReceiveMessage", from |-> u, att |-> a,
                 wire |-> WireMsg(0, d, NOBLE, n, M1, r, c, b)] :
                  a \in AnyAtt(s), n \in {FreshIn(s, d), 0}, r \in {ModulePadded, R1}, c \in {Zero32},
                  b \in {BurnBody(0, T1, Pad("a3"), 1, Pad("x2")), BurnBody(0, T1, B("j", "a1"), 2, Pad("x2")), Raw(1, 20)}}
              : d \in {"d1", "d2"}}
  \cup UNION { { [type |-> "ReplaceMessage", from |-> u, orig |-> h.outbox[i].msg, att |-> a, body |-> Raw(2, 12), caller |-> c],
                 [type |-> "ReplaceDepositForBurn", from |-> u, orig |-> h.outbox[i].msg, att |-> a, mrcpt |-> Pad("a2"), caller |-> c] }
               : i \in DOMAIN h.outbox, a \in AnyAtt(s), c \in {Zero32, B("j", "x2")} }

AdminMsgs(u) ==
       [type : {"UpdateOwner", "UpdateAttesterManager", "UpdatePauser", "UpdateTokenController"}, from : {u}, new : Users \cup {"GARBAGE"}]
  \cup [type : {"AcceptOwner"} \cup PauserTypes, from : {u}]
  \cup [type : {"UpdateMaxMessageBodySize"}, from : {u}, size : {131, 200, 3000000}]
  \cup [type : {"AddRemoteTokenMessenger"}, from : {u}, d : {"d1", "d3"}, addr : {M1, Zero32}]
  \cup [type : {"RemoveRemoteTokenMessenger"}, from : {u}, d : {"d1", "d3"}]
  \cup [type : {"EnableAttester", "DisableAttester"}, from : {u}, att : {A("k1"), A("k3"), A("k4"), [key |-> "k1", sp |-> "0x"]}]
  \cup [type : {"UpdateSignatureThreshold"}, from : {u}, amt : {1, 2, 3}]
  \cup [type : {"LinkTokenPair"}, from : {u}, d : {"d1", "d2"}, tok : {T1, T2}, denom : {MINT, "MINT_UP"}]
  \cup [type : {"UnlinkTokenPair"}, from : {u}, d : {"d1", "d2"}, tok : {T1}]
  \cup [type : {"SetMaxBurnAmountPerMessage"}, from : {u}, denom : {MINT, "MINT_UP"}, amt : {1, 2}]

\* bias: holders act more often than strangers (simulation picks uniformly among enabled instances)
MCMsgs(s, h) == UNION {UserMsgs(s, h, u) : u \in Users}
                \cup AdminMsgs(s.owner) \cup AdminMsgs(s.attMgr) \cup AdminMsgs(s.pauser) \cup AdminMsgs(s.tokCtl)
                \cup (IF s.pending # None THEN AdminMsgs(s.pending) ELSE {}) \cup AdminMsgs("a3")

\* multi-message transactions: all-or-nothing on one branch
Batches(s, h) ==
  LET recv(u, d) == [type |-> "ReceiveMessage", from |-> u, att |-> HonestAtt(s),
                     wire |-> WireMsg(0, d, NOBLE, FreshIn(s, d), M1, ModulePadded, Zero32, BurnBody(0, T1, Pad("a3"), 1, Pad("x2")))] IN
  { [type |-> "Batch", msgs |-> <<[type |-> "UpdatePauser", from |-> s.owner, new |-> "a3"], [type |-> "AcceptOwner", from |-> "a8"]>>],
    [type |-> "Batch", msgs |-> <<[type |-> "UpdateOwner", from |-> s.owner, new |-> "a2"], [type |-> "AcceptOwner", from |-> "a2"],
                                  [type |-> "PauseBurningAndMinting", from |-> s.pauser]>>],
    [type |-> "Batch", msgs |-> <<[type |-> "DepositForBurn", from |-> "a1", amt |-> 1, dst |-> "d1", mrcpt |-> B("j", "x1"), tok |-> MINT],
                                  [type |-> "SendMessage", from |-> "a1", dst |-> "d1", rcpt |-> R1, body |-> Raw(1, 9000)]>>],
    [type |-> "Batch", msgs |-> <<recv("a1", "d1"), recv("a2", "d1")>>],
    [type |-> "Batch", msgs |-> <<recv("a1", "d1"), [type |-> "SendMessage", from |-> "a1", dst |-> "d1", rcpt |-> R1, body |-> Raw(1, 10)]>>] }

SubmitBatch(b) ==
  /\ tx.pc = "idle"
  /\ LET r == RunBatch(st, b, <<>>) IN
     /\ st' = r.post /\ last' = r.out /\ hist' = HistExtend(hist, r.out) /\ tx' = Idle

CONSTANT MaxDepth
Init == InitOver({SimInit}) /\ trace = <<>>
\* simulation evaluates every candidate successor, so the behaviour is printed by a dedicated final
\* step (one successor), not from an action constraint
Done == /\ tx.pc = "idle" /\ hist.steps = MaxDepth /\ trace # <<>>
        /\ PrintT(ToJson([init |-> SimInit, events |-> trace]))
        /\ trace' = <<>> /\ UNCHANGED vars
Next == \/ /\ (NextOver(MCMsgs, MaxDepth) \/ (hist.steps < MaxDepth /\ \E b \in Batches(st, hist) : SubmitBatch(b)))
           /\ trace' = IF tx'.pc = "idle" /\ hist'.steps # hist.steps
                       THEN Append(trace, [msg |-> last'.msg, faults |-> last'.faults]) ELSE trace
        \/ Done
Spec == Init /\ [][Next]_svars
=============================================================================
