---------------------------- MODULE MC_Lifecycle ----------------------------
(* C10 / C11 / C12 / C15 over HISTORIES: every sequence (to a bounded       *)
(* length) of role-lifecycle and pause transactions, including the same     *)
(* transactions merely simulated or placed in a multi-message transaction   *)
(* whose last message fails, followed by probes.                            *)
EXTENDS MCPaths

Start == [BaseState EXCEPT !.pauser = "a2", !.bal = [@ EXCEPT !["a1"] = 6], !.supply = 10]

Core(s) ==
  { [type |-> "UpdateOwner", from |-> s.owner, new |-> s.owner], [type |-> "UpdateOwner", from |-> s.owner, new |-> "a2"],
    [type |-> "UpdateOwner", from |-> s.owner, new |-> "a3"],
    [type |-> "UpdatePauser", from |-> s.owner, new |-> "a3"],
    [type |-> "PauseBurningAndMinting", from |-> s.pauser], [type |-> "UnpauseBurningAndMinting", from |-> s.pauser] }
Wrapped(s) ==
  LET W == { [type |-> "UpdateOwner", from |-> s.owner, new |-> "a2"], [type |-> "AcceptOwner", from |-> "a2"],
             [type |-> "UpdatePauser", from |-> s.owner, new |-> "a3"],
             [type |-> "PauseBurningAndMinting", from |-> s.pauser], [type |-> "UnpauseBurningAndMinting", from |-> s.pauser] }
  IN {Sim(m) : m \in W} \cup {Bat(m) : m \in W}
Probes(s) ==
  { [type |-> "AcceptOwner", from |-> "a2"], [type |-> "AcceptOwner", from |-> "a3"], [type |-> "AcceptOwner", from |-> "a1"],
    [type |-> "PauseBurningAndMinting", from |-> "a3"],
    [type |-> "DepositForBurn", from |-> "a1", amt |-> 1, dst |-> "d1", mrcpt |-> B("j", "x1"), tok |-> MINT] }
Msgs(s) == Core(s) \cup Wrapped(s) \cup Probes(s)
Depth == IF Thorough THEN 4 ELSE 3

Init == PInit(Start)
Next == (\E m \in Msgs(st) : PStep(m, Depth)) \/ PDone(Start, Depth)
Spec == Init /\ [][Next]_pvars

\* a simulated transaction changes nothing
DiscardedChangesNothing ==
  [][(Len(trace') = Len(trace) + 1 /\ trace'[Len(trace')].msg.type = "Simulate") => st' = st]_pvars
=============================================================================
