---------------------------- MODULE MC_Lifecycle ----------------------------
(* C10 / C11 / C12 / C15 over HISTORIES: every sequence (to a bounded       *)
(* length) of role-lifecycle and pause transactions, including the same     *)
(* transactions merely simulated or placed in a multi-message transaction   *)
(* whose last message fails (a branch that is discarded), followed by       *)
(* probes.  TLC enumerates the paths (the path is part of the state); each  *)
(* maximal path is printed once and replayed from genesis on the real code, *)
(* so that what a transaction left behind -- in the store or anywhere else  *)
(* -- meets the transactions that follow it.                                *)
EXTENDS MCBase

VARIABLE trace
lvars == <<st, tx, hist, last, trace>>

Start == [BaseState EXCEPT !.pauser = "a2", !.bal = [@ EXCEPT !["a1"] = 6], !.supply = 10]
Failing == [type |-> "AcceptOwner", from |-> "x1"]
Sim(m)   == [type |-> "Simulate", tx |-> m]
Bat(m)   == [type |-> "Batch", msgs |-> <<m, Failing>>]

Core(s) ==
  { [type |-> "UpdateOwner", from |-> s.owner, new |-> s.owner], [type |-> "UpdateOwner", from |-> s.owner, new |-> "a2"],
    [type |-> "UpdateOwner", from |-> s.owner, new |-> "a3"],
    [type |-> "UpdatePauser", from |-> s.owner, new |-> "a3"],
    [type |-> "PauseBurningAndMinting", from |-> s.pauser], [type |-> "UnpauseBurningAndMinting", from |-> s.pauser] }
Wrapped(s) ==
  LET W == { [type |-> "UpdateOwner", from |-> s.owner, new |-> "a2"], [type |-> "AcceptOwner", from |-> "a2"],
             [type |-> "UpdatePauser", from |-> s.owner, new |-> "a3"],
             [type |-> "PauseBurningAndMinting", from |-> s.pauser], [type |-> "UnpauseBurningAndMinting", from |-> s.pauser] }
  IN {Sim(m) : m \in W} \cup {Bat(m) : m \in W}
Probes(s) ==
  { [type |-> "AcceptOwner", from |-> "a2"], [type |-> "AcceptOwner", from |-> "a3"], [type |-> "AcceptOwner", from |-> "a1"],
    [type |-> "PauseBurningAndMinting", from |-> "a3"],
    [type |-> "DepositForBurn", from |-> "a1", amt |-> 1, dst |-> "d1", mrcpt |-> B("j", "x1"), tok |-> MINT] }
Msgs(s) == Core(s) \cup Wrapped(s) \cup Probes(s)

Depth == IF Thorough THEN 4 ELSE 3

Step(m) ==
  /\ tx.pc = "idle" /\ Len(trace) < Depth
  /\ LET r == Run(st, m, <<>>) IN
     /\ st' = r.post /\ last' = r.out /\ hist' = [hist EXCEPT !.steps = @ + 1] /\ tx' = Idle
     /\ trace' = Append(trace, [msg |-> m, faults |-> <<>>])
Done == /\ Len(trace) = Depth
        /\ PrintT(ToJson([init |-> Start, events |-> trace]))
        /\ trace' = <<"done">> \o trace /\ UNCHANGED vars

Init == InitOver({Start}) /\ trace = <<>>
Next == (\E m \in Msgs(st) : Step(m)) \/ Done
Spec == Init /\ [][Next]_lvars

\* C11 / C10 on the paths: a simulated or failed-batch transaction changes nothing
DiscardedChangesNothing ==
  [][(Len(trace') = Len(trace) + 1 /\ trace'[Len(trace')].msg.type = "Simulate") => st' = st]_lvars
=============================================================================
