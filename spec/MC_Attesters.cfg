SPECIFICATION Spec
CONSTANTS
  MintLower = "MINT"
  Accounts <- AllAccounts
  Thorough = FALSE
VIEW StView
INVARIANTS HistoryOK ModuleAccountEmpty ThresholdInv
PROPERTIES SpecSatisfiesLenses StepwiseIsRun AttesterRulesRefine 
ACTION_CONSTRAINT EmitEdge
CHECK_DEADLOCK FALSE
