"""Property-specific flows that do not go through Trace.tla's transaction histories:
   C16 codec vectors, C17 genesis, C18 determinism, C19 queries/pagination, C20 non-transaction inputs.
   Each flow: (optional TLC model run) -> harness observations (ndjson) -> a TLA+ validation module prints verdicts.
"""
import os, json, glob, shutil, subprocess, tempfile, hashlib


def aux_validate(ctx, module, cfg, obs_path, workdir, timeout=1200, shards=8):
    """runs a validation module (GenTrace / CodecTrace / ...) over an ndjson file; returns verdict dicts"""
    lines = [x for x in open(obs_path).read().splitlines() if x.strip()]
    if not lines:
        return []
    nshard = max(1, min(shards, len(lines) // 2000 + 1))
    procs = []
    for i in range(nshard):
        sl = lines[i::nshard]
        sp = os.path.join(workdir, "aux%d.ndjson" % i)
        open(sp, "w").write("\n".join(sl) + "\n")
        scratch = tempfile.mkdtemp(prefix="aux.", dir=workdir)
        for f in glob.glob(os.path.join(ctx["VERIF"], "spec", "*")):
            shutil.copy(f, scratch)
        fo = open(os.path.join(scratch, "tlc.out"), "w")
        p = subprocess.Popen(["timeout", str(timeout), "tlc", "-workers", "4", "-metadir", os.path.join(scratch, "meta"),
                              "-config", cfg, module + ".tla"], cwd=scratch, env=dict(os.environ, TRACE_FILE=sp),
                             stdout=fo, stderr=subprocess.STDOUT)
        procs.append((p, fo, scratch, len(sl)))
    out = []
    for p, fo, scratch, n in procs:
        rc = p.wait()
        fo.close()
        text = open(os.path.join(scratch, "tlc.out")).read()
        vs = [json.loads(json.loads(x)) for x in text.splitlines() if x.startswith('"{')]
        if rc != 0 or "No error has been found" not in text or len(vs) != n:
            tail = "\n".join(x for x in text.splitlines() if not x.startswith('"{'))[-3000:]
            raise ctx["Machinery"]("%s did not complete (rc=%s, %d verdicts for %d records):\n%s" % (module, rc, len(vs), n, tail))
        out += vs
        shutil.rmtree(scratch, ignore_errors=True)
    return out


def harness(ctx, binp, args, seed, **kw):
    r = ctx["sh"]([binp] + args, env=dict(VERIF_SEED=str(seed)), capture_output=True, text=True, **kw)
    if r.returncode != 0:
        raise ctx["Machinery"]("harness %s failed:\n%s" % (args[0], (r.stdout + r.stderr)[-3000:]))
    return r


def write_replay(ctx, prop, seed, payload):
    d = os.path.join(ctx["OUT"], "replays")
    os.makedirs(d, exist_ok=True)
    hid = hashlib.sha1(json.dumps(payload, sort_keys=True).encode()).hexdigest()[:10]
    p = os.path.join(d, "%s-%s-%s.json" % (prop, seed, hid))
    payload = dict(payload, property=prop, seed=seed)
    json.dump(payload, open(p, "w"), indent=1)
    return p


# ---------------------------------------------------------------------------------------------- C17

def genesis_obs(ctx, binp, seed, tier, workdir):
    cfg = "MC_Genesis.cfg" if tier == "quick" else "MC_Genesis_T.cfg"
    outp, rc, scratch = ctx["run_tlc"]("MC_Genesis", cfg, workdir, 1500, os.cpu_count() or 8)
    cases = os.path.join(workdir, "gcases.ndjson")
    text, n = ctx["split"](outp, cases)
    shutil.rmtree(scratch, ignore_errors=True)
    if rc != 0 or "No error has been found" not in text or n == 0:
        raise ctx["Machinery"]("TLC did not verify MC_Genesis (rc=%s):\n%s" % (rc, text[-3000:]))
    gen, dist = ctx["tlc_stats"](text)
    obs = os.path.join(workdir, "gobs.ndjson")
    harness(ctx, binp, ["genesis", "-in", cases, "-out", obs], seed)
    return obs, gen, dist, n


def run_genesis(ctx, prop, tier, seed, binp, workdir):
    obs, gen, dist, ncases = genesis_obs(ctx, binp, seed, tier, workdir)
    reobs = os.path.join(workdir, "reobs.ndjson")
    n, depth = (40, 40) if tier == "quick" else (600, 120)
    # ... and the states at the end of TLC-enumerated paths with simulated, failing and read-back transactions
    # (what is exported must be what is STORED, not what a discarded branch left in memory)
    dcfg = "MC_DiscardPaths.cfg" if tier == "quick" else "MC_DiscardPaths_T.cfg"
    doutp, drc, dscratch = ctx["run_tlc"]("MC_DiscardPaths", dcfg, workdir, 1500, os.cpu_count() or 8)
    dpaths = os.path.join(workdir, "discardpaths.ndjson")
    dtext, nd = ctx["split"](doutp, dpaths)
    shutil.rmtree(dscratch, ignore_errors=True)
    if drc != 0 or "No error has been found" not in dtext or nd == 0:
        raise ctx["Machinery"]("TLC did not verify MC_DiscardPaths:\n" + dtext[-2000:])
    lines = open(dpaths).read().splitlines()
    step = max(1, len(lines) // (4000 if tier == "quick" else 20000))
    open(dpaths, "w").write("\n".join(lines[::step]) + "\n")
    harness(ctx, binp, ["reimport", "-n", str(n), "-depth", str(depth), "-in", dpaths, "-out", reobs], seed)
    allp = os.path.join(workdir, "gall.ndjson")
    recs = {}
    with open(allp, "w") as fo:
        for pth in (obs, reobs):
            for line in open(pth):
                r = json.loads(line)
                r["id"] = len(recs) + 1
                recs[r["id"]] = r
                fo.write(json.dumps(r) + "\n")
    verdicts = aux_validate(ctx, "GenTrace", "GenTrace.cfg", allp, workdir)
    bysig = {}
    for v in verdicts:
        for sig in v["fails"]:
            bysig.setdefault(sig, v["id"])
    violations = []
    for sig, rid in sorted(bysig.items()):
        r = recs[rid]
        if r["kind"] == "genesis":
            payload = dict(special="genesis", signature=sig, g=r["g"], first_observed=r["obs"])
        else:
            payload = dict(special="reimport", signature=sig, history=r["history"], step=r["step"],
                           first_observed={k: v for k, v in r["obs"].items() if k not in ("state", "reimported")})
            if "given" in r:
                payload["given"] = r["given"]
        rp = write_replay(ctx, sig.split(":")[0], seed, payload)
        violations.append(dict(signature=sig, replay=rp, confirmed=bool(replay(json.load(open(rp)), binp, workdir, ctx))))
    nre = sum(1 for r in recs.values() if r["kind"] == "reimport")
    samples = [dict(kind="genesis", g=recs[1]["g"], observed={k: recs[1]["obs"][k] for k in ("validate", "init", "export")})]
    cov = dict(states=dist, transitions=gen, traces_validated_against_impl=len(recs), evaluations=len(recs),
               distinct_nontrivial=ncases + nre, samples=samples,
               genesis_cases=ncases, reimported_states=nre)
    return dict(violations=violations, coverage=cov)


def replay_genesis(rp, binp, workdir, ctx):
    sig = rp["signature"]
    if rp["special"] == "genesis":
        cases = os.path.join(workdir, "rg.ndjson")
        open(cases, "w").write(json.dumps(dict(g=rp["g"])) + "\n")
        obs = os.path.join(workdir, "rgo.ndjson")
        harness(ctx, binp, ["genesis", "-in", cases, "-out", obs], rp["seed"])
    else:
        obs0 = os.path.join(workdir, "rro0.ndjson")
        if "given" in rp:
            gin = os.path.join(workdir, "rrgiven.ndjson")
            open(gin, "w").write(json.dumps(rp["given"]) + "\n")
            harness(ctx, binp, ["reimport", "-n", "0", "-in", gin, "-out", obs0], rp["seed"])
        else:
            harness(ctx, binp, ["reimport", "-first", str(rp["history"]), "-n", "1", "-depth", str(rp["step"]), "-out", obs0], rp["seed"])
        last = open(obs0).read().splitlines()[-1]
        obs = os.path.join(workdir, "rro.ndjson")
        open(obs, "w").write(last + "\n")
    vs = aux_validate(ctx, "GenTrace", "GenTrace.cfg", obs, workdir)
    return any(sig in v["fails"] for v in vs)


# ---------------------------------------------------------------------------------------------- C16

def run_codec(ctx, prop, tier, seed, binp, workdir):
    obs = os.path.join(workdir, "codec.ndjson")
    n = 400 if tier == "quick" else 20000
    harness(ctx, binp, ["codec", "-n", str(n), "-out", obs], seed)
    recs = {}
    for line in open(obs):
        r = json.loads(line)
        recs[r["id"]] = r
    verdicts = aux_validate(ctx, "Codec", "Codec.cfg", obs, workdir)
    bysig, kinds = {}, {}
    for v in verdicts:
        kinds[v["kind"]] = kinds.get(v["kind"], 0) + 1
        for sig in v["fails"]:
            bysig.setdefault(sig, v["id"])
    violations = []
    for sig, rid in sorted(bysig.items()):
        r = recs[rid]
        # the vectors this process encoded / decoded just before (an encoder or decoder that keeps memory between calls
        # fails only after a particular past): replayed in order when the vector alone does not reproduce
        before = [dict(kind=recs[i]["kind"], prev=recs[i].get("prev"), **{"in": recs[i]["in"]}) for i in sorted(recs) if rid - 60 <= i < rid]
        rp = write_replay(ctx, prop, seed, dict(special="codec", signature=sig, kind=r["kind"], prev=r.get("prev"), **{"in": r["in"]}, first_observed=r["obs"], context=before))
        if not replay(json.load(open(rp)), binp, workdir, ctx):
            raise ctx["Machinery"]("C16 counterexample %s did not reproduce (%s)" % (sig, rp))
        violations.append(dict(signature=sig, replay=rp))
    ex = recs[303]
    cov = dict(evaluations=len(recs), distinct_nontrivial=len({json.dumps(r["in"]) + r["kind"] for r in recs.values()}),
               traces_validated_against_impl=len(recs), vectors_by_kind=kinds,
               samples=[dict(kind=ex["kind"], input_len=len(ex["in"]) if isinstance(ex["in"], list) else None, observed=ex["obs"]["res"])])
    return dict(violations=violations, coverage=cov)


def replay_codec(rp, binp, workdir, ctx):
    def attempt(records):
        inp = os.path.join(workdir, "cr.ndjson")
        with open(inp, "w") as f:
            for i, c in enumerate(records):
                rec = {"id": i + 1, "kind": c["kind"], "in": c["in"]}
                if c.get("prev") is not None:
                    rec["prev"] = c["prev"]
                f.write(json.dumps(rec) + "\n")
        obs = os.path.join(workdir, "cro.ndjson")
        harness(ctx, binp, ["codecreplay", "-in", inp, "-out", obs], rp["seed"])
        vs = aux_validate(ctx, "Codec", "Codec.cfg", obs, workdir)
        return any(rp["signature"] in v["fails"] for v in vs)
    if attempt([rp]):
        return True
    return bool(rp.get("context")) and attempt(list(rp["context"]) + [rp])


# ---------------------------------------------------------------------------------------------- C18

def det_run(ctx, binp, args, seed):
    """runs the determinism command; returns (stderr text, exit code) without raising on a race report"""
    r = ctx["sh"]([binp] + args, env=dict(VERIF_SEED=str(seed), GORACE="halt_on_error=0"), capture_output=True, text=True)
    return r.stdout + r.stderr, r.returncode


def run_determinism(ctx, prop, tier, seed, binp, workdir):
    race = ctx["build_race"]()
    n, depth = (40, 60) if tier == "quick" else (200, 150)
    obs = os.path.join(workdir, "det.ndjson")
    # TLC-enumerated transfer histories (faults, simulated and discarded transactions) are replicated too
    cfg = "MC_XferPaths.cfg" if tier == "quick" else "MC_XferPaths_T.cfg"
    outp, rc0, scratch = ctx["run_tlc"]("MC_XferPaths", cfg, workdir, 1500, os.cpu_count() or 8)
    paths = os.path.join(workdir, "xferpaths.ndjson")
    ttext, npaths = ctx["split"](outp, paths)
    shutil.rmtree(scratch, ignore_errors=True)
    if rc0 != 0 or "No error has been found" not in ttext or npaths == 0:
        raise ctx["Machinery"]("TLC did not verify MC_XferPaths:\n" + ttext[-2000:])
    # a deterministic sample of the paths bounds the run (the determinism command is sequential: 9 replicas per history
    # under the race detector; all paths of the thorough model would take about three hours)
    lines = open(paths).read().splitlines()
    open(paths, "w").write("\n".join(lines[::7] if tier == "quick" else lines[::5]) + "\n")
    # TLC-enumerated genesis states: many fresh chains initialised from the same genesis must agree
    gcfg = "MC_Genesis.cfg" if tier == "quick" else "MC_Genesis_T.cfg"
    goutp, grc, gscratch = ctx["run_tlc"]("MC_Genesis", gcfg, workdir, 1500, os.cpu_count() or 8)
    gcases = os.path.join(workdir, "det_gcases.ndjson")
    gtext, ng = ctx["split"](goutp, gcases)
    shutil.rmtree(gscratch, ignore_errors=True)
    if grc != 0 or "No error has been found" not in gtext or ng == 0:
        raise ctx["Machinery"]("TLC did not verify MC_Genesis:\n" + gtext[-2000:])
    multi, rest = [], []
    for line in open(gcases):
        try:
            g = json.loads(json.loads(line)) if line.startswith('"') else json.loads(line)
        except ValueError:
            continue
        g = g.get("g", {})
        (multi if any(isinstance(v, list) and len(v) >= 2 for v in g.values()) else rest).append(line)
    cap = 400 if tier == "quick" else 2000
    pick = multi[::max(1, len(multi) // cap)] + rest[::max(1, len(rest) // (cap // 4))]
    with open(paths, "a") as f:
        f.write("".join(pick))
    text, rc = det_run(ctx, race, ["determinism", "-n", str(n), "-depth", str(depth), "-in", paths, "-out", obs], seed)
    violations = []
    if "DATA RACE" in text:
        rp = write_replay(ctx, prop, seed, dict(special="det", signature="C18:data-race", first=1, n=n, depth=depth, report=text[-4000:]))
        violations.append(dict(signature="C18:data-race", replay=rp))
    elif rc != 0:
        raise ctx["Machinery"]("determinism run failed (rc=%s):\n%s" % (rc, text[-3000:]))
    recs = {}
    for line in open(obs):
        r = json.loads(line)
        recs[r["id"]] = r
    verdicts = aux_validate(ctx, "AuxTrace", "AuxTrace.cfg", obs, workdir)
    bysig = {}
    for v in verdicts:
        for sig in v["fails"]:
            bysig.setdefault(sig, v["id"])
    for sig, rid in sorted(bysig.items()):
        rp = write_replay(ctx, prop, seed, dict(special="det", signature=sig, first=rid, n=2, depth=depth, replicas=recs[rid]["replicas"], tier=tier,
                                                 **({"g": recs[rid]["g"]} if "g" in recs[rid] else {})))
        violations.append(dict(signature=sig, replay=rp))     # irreproducibility IS the violation: two recorded runs differ
    steps = sum(r["steps"] for r in recs.values())
    nrep = len(next(iter(recs.values()))["replicas"]) if recs else 0
    ex = recs[min(recs)] if recs else {}
    cov = dict(evaluations=steps * nrep, distinct_nontrivial=steps, traces_validated_against_impl=len(recs) * nrep,
               histories=len(recs), replicas_per_history=nrep, race_detector=True,
               samples=[dict(history=ex.get("id"), steps=ex.get("steps"), last_digest_by_replica={k: v[-1] for k, v in ex.get("replicas", {}).items()})])
    return dict(violations=violations, coverage=cov)


def replay_det(rp, binp, workdir, ctx):
    if rp.get("first", 0) > 1_000_000 or rp["signature"] == "C18:data-race":
        # a TLC-given history (or a race anywhere): run the flow again and look for the signature
        r = run_determinism(ctx, rp["property"], rp.get("tier", "quick"), rp["seed"], binp, workdir)
        return any(v["signature"] == rp["signature"] for v in r["violations"])
    race = ctx["build_race"]()
    obs = os.path.join(workdir, "rdet.ndjson")
    text, rc = det_run(ctx, race, ["determinism", "-first", str(rp["first"]), "-n", str(rp["n"]), "-depth", str(rp["depth"]), "-out", obs], rp["seed"])
    if rp["signature"] == "C18:data-race":
        return "DATA RACE" in text
    vs = aux_validate(ctx, "AuxTrace", "AuxTrace.cfg", obs, workdir)
    return any(v["fails"] for v in vs)


# ---------------------------------------------------------------------------------------------- C20 (non-transaction inputs)

def run_misc(ctx, prop, tier, seed, binp, workdir):
    obs = os.path.join(workdir, "misc.ndjson")
    harness(ctx, binp, ["misc", "-out", obs], seed)
    recs = [json.loads(x) for x in open(obs)]
    verdicts = aux_validate(ctx, "AuxTrace", "AuxTrace.cfg", obs, workdir)
    sigs = sorted({s for v in verdicts for s in v["fails"]})
    # decoders: the codec vectors (every input length 0..300 and more), panics only
    cobs = os.path.join(workdir, "codec20.ndjson")
    harness(ctx, binp, ["codec", "-n", "300" if tier == "quick" else "5000", "-out", cobs], seed)
    ndec = 0
    for line in open(cobs):
        r = json.loads(line)
        ndec += 1
        if r["obs"]["res"] == "panic":
            sigs.append("C20:decoder:" + r["kind"])
    violations = []
    for sig in sorted(set(sigs)):
        rp = write_replay(ctx, prop, seed, dict(special="misc", signature=sig))
        violations.append(dict(signature=sig, replay=rp))
    cov = dict(evaluations=len(recs) + ndec, distinct_nontrivial=len(recs) + ndec, traces_validated_against_impl=len(recs),
               query_and_cli_calls=len(recs), decoder_inputs=ndec, samples=recs[:2])
    return dict(violations=violations, coverage=cov)


def replay_misc(rp, binp, workdir, ctx):
    r = run_misc(ctx, rp["property"], "quick", rp["seed"], binp, workdir)
    return any(v["signature"] == rp["signature"] for v in r["violations"])


# ---------------------------------------------------------------------------------------------- C13 (Apalache, design level)

def run_ind_attesters(ctx, prop, tier, seed, binp, workdir):
    """Inductive invariant 1 <= t <= |attesters| of the attester-manager rules over 10 strings, discharged by Apalache
    (Init => Inv is Init = Inv; Inv /\\ Next => Inv' at length 1).  MC_Attesters binds those rules to CCTP.tla."""
    scratch = tempfile.mkdtemp(prefix="apalache.", dir=workdir)
    shutil.copy(os.path.join(ctx["VERIF"], "spec", "Ind_Attesters.tla"), scratch)
    r = subprocess.run(["timeout", "900", "apalache-mc", "check", "--cinit=CInit", "--init=Init", "--inv=Inv", "--length=1", "Ind_Attesters.tla"],
                       cwd=scratch, capture_output=True, text=True)
    out = r.stdout + r.stderr
    shutil.rmtree(scratch, ignore_errors=True)
    if r.returncode != 0 or "The outcome is: NoError" not in out:
        raise ctx["Machinery"]("Apalache did not discharge the inductive invariant of Ind_Attesters.tla:\n" + out[-2000:])
    return dict(violations=[], coverage=dict(apalache=dict(module="Ind_Attesters.tla", invariant="Inv", inductive_step_length=1,
                                                           attester_strings=10, outcome="NoError")))


# ---------------------------------------------------------------------------------------------- dispatch

FLOWS = {"genesis": run_genesis, "codec": run_codec, "determinism": run_determinism, "misc": run_misc, "ind_attesters": run_ind_attesters}
REPLAYS = {"genesis": replay_genesis, "reimport": replay_genesis, "codec": replay_codec, "det": replay_det, "misc": replay_misc}


def run(special, prop, tier, seed, binp, workdir, ctx):
    """A flow serves one or several properties: its result (all signatures) is cached by content hash like a stage;
    each check reads the signatures that start with its own property id."""
    cdir = os.path.join(ctx["OUT"], "cache")
    os.makedirs(cdir, exist_ok=True)
    cp = os.path.join(cdir, "special-%s-%s-%s-%s.json" % (special, tier, seed, ctx["thash"]))
    res = None
    if os.path.exists(cp) and os.environ.get("VERIF_NOCACHE") != "1" and special in ("genesis",):
        try:
            res = json.load(open(cp))
            if not all(os.path.exists(v["replay"]) for v in res["violations"]):
                res = None
        except Exception:
            res = None
    if res is None:
        res = FLOWS[special](ctx, prop, tier, seed, binp, workdir)
        json.dump(res, open(cp + ".tmp%d" % os.getpid(), "w"))
        os.replace(cp + ".tmp%d" % os.getpid(), cp)
    mine = [v for v in res["violations"] if v["signature"].startswith(prop + ":")]
    unconfirmed = [v for v in mine if v.get("confirmed") is False]
    if unconfirmed and len(unconfirmed) == len(mine):
        raise ctx["Machinery"]("counterexample(s) %s did not reproduce" % ", ".join(v["signature"] for v in unconfirmed))
    return dict(violations=[v for v in mine if v.get("confirmed") is not False], coverage=res["coverage"])


def replay(rp, binp, workdir, ctx):
    return REPLAYS[rp["special"]](rp, binp, workdir, ctx)
