"""Property-specific flows that do not go through Trace.tla's transaction histories:
   C16 codec vectors, C17 genesis, C18 determinism, C19 queries/pagination, C20 non-transaction inputs.
   Each flow: (optional TLC model run) -> harness observations (ndjson) -> a TLA+ validation module prints verdicts.
"""
import os, json, glob, shutil, subprocess, tempfile, hashlib


def aux_validate(ctx, module, cfg, obs_path, workdir, timeout=1200, shards=8):
    """runs a validation module (GenTrace / CodecTrace / ...) over an ndjson file; returns verdict dicts"""
    lines = [x for x in open(obs_path).read().splitlines() if x.strip()]
    if not lines:
        return []
    nshard = max(1, min(shards, len(lines) // 2000 + 1))
    procs = []
    for i in range(nshard):
        sl = lines[i::nshard]
        sp = os.path.join(workdir, "aux%d.ndjson" % i)
        open(sp, "w").write("\n".join(sl) + "\n")
        scratch = tempfile.mkdtemp(prefix="aux.", dir=workdir)
        for f in glob.glob(os.path.join(ctx["VERIF"], "spec", "*")):
            shutil.copy(f, scratch)
        fo = open(os.path.join(scratch, "tlc.out"), "w")
        p = subprocess.Popen(["timeout", str(timeout), "tlc", "-workers", "4", "-metadir", os.path.join(scratch, "meta"),
                              "-config", cfg, module + ".tla"], cwd=scratch, env=dict(os.environ, TRACE_FILE=sp),
                             stdout=fo, stderr=subprocess.STDOUT)
        procs.append((p, fo, scratch, len(sl)))
    out = []
    for p, fo, scratch, n in procs:
        rc = p.wait()
        fo.close()
        text = open(os.path.join(scratch, "tlc.out")).read()
        vs = [json.loads(json.loads(x)) for x in text.splitlines() if x.startswith('"{')]
        if rc != 0 or "No error has been found" not in text or len(vs) != n:
            tail = "\n".join(x for x in text.splitlines() if not x.startswith('"{'))[-3000:]
            raise ctx["Machinery"]("%s did not complete (rc=%s, %d verdicts for %d records):\n%s" % (module, rc, len(vs), n, tail))
        out += vs
        shutil.rmtree(scratch, ignore_errors=True)
    return out


def harness(ctx, binp, args, seed, **kw):
    r = ctx["sh"]([binp] + args, env=dict(VERIF_SEED=str(seed)), capture_output=True, text=True, **kw)
    if r.returncode != 0:
        raise ctx["Machinery"]("harness %s failed:\n%s" % (args[0], (r.stdout + r.stderr)[-3000:]))
    return r


def write_replay(ctx, prop, seed, payload):
    d = os.path.join(ctx["OUT"], "replays")
    os.makedirs(d, exist_ok=True)
    hid = hashlib.sha1(json.dumps(payload, sort_keys=True).encode()).hexdigest()[:10]
    p = os.path.join(d, "%s-%s-%s.json" % (prop, seed, hid))
    payload = dict(payload, property=prop, seed=seed)
    json.dump(payload, open(p, "w"), indent=1)
    return p


# ---------------------------------------------------------------------------------------------- C17

def genesis_obs(ctx, binp, seed, tier, workdir):
    cfg = "MC_Genesis.cfg" if tier == "quick" else "MC_Genesis_T.cfg"
    outp, rc, scratch = ctx["run_tlc"]("MC_Genesis", cfg, workdir, 1500, os.cpu_count() or 8)
    cases = os.path.join(workdir, "gcases.ndjson")
    text, n = ctx["split"](outp, cases)
    shutil.rmtree(scratch, ignore_errors=True)
    if rc != 0 or "No error has been found" not in text or n == 0:
        raise ctx["Machinery"]("TLC did not verify MC_Genesis (rc=%s):\n%s" % (rc, text[-3000:]))
    gen, dist = ctx["tlc_stats"](text)
    obs = os.path.join(workdir, "gobs.ndjson")
    harness(ctx, binp, ["genesis", "-in", cases, "-out", obs], seed)
    return obs, gen, dist, n


def run_genesis(ctx, prop, tier, seed, binp, workdir):
    obs, gen, dist, ncases = genesis_obs(ctx, binp, seed, tier, workdir)
    reobs = os.path.join(workdir, "reobs.ndjson")
    n, depth = (40, 40) if tier == "quick" else (600, 120)
    harness(ctx, binp, ["reimport", "-n", str(n), "-depth", str(depth), "-out", reobs], seed)
    allp = os.path.join(workdir, "gall.ndjson")
    recs = {}
    with open(allp, "w") as fo:
        for pth in (obs, reobs):
            for line in open(pth):
                r = json.loads(line)
                r["id"] = len(recs) + 1
                recs[r["id"]] = r
                fo.write(json.dumps(r) + "\n")
    verdicts = aux_validate(ctx, "GenTrace", "GenTrace.cfg", allp, workdir)
    bysig = {}
    for v in verdicts:
        for sig in v["fails"]:
            bysig.setdefault(sig, v["id"])
    violations = []
    for sig, rid in sorted(bysig.items()):
        r = recs[rid]
        if r["kind"] == "genesis":
            payload = dict(special="genesis", signature=sig, g=r["g"], first_observed=r["obs"])
        else:
            payload = dict(special="reimport", signature=sig, history=r["history"], step=r["step"],
                           first_observed={k: v for k, v in r["obs"].items() if k not in ("state", "reimported")})
        rp = write_replay(ctx, prop, seed, payload)
        if not replay(json.load(open(rp)), binp, workdir, ctx):
            raise ctx["Machinery"]("C17 counterexample %s did not reproduce (%s)" % (sig, rp))
        violations.append(dict(signature=sig, replay=rp))
    nre = sum(1 for r in recs.values() if r["kind"] == "reimport")
    samples = [dict(kind="genesis", g=recs[1]["g"], observed={k: recs[1]["obs"][k] for k in ("validate", "init", "export")})]
    cov = dict(states=dist, transitions=gen, traces_validated_against_impl=len(recs), evaluations=len(recs),
               distinct_nontrivial=ncases + nre, samples=samples,
               genesis_cases=ncases, reimported_states=nre)
    return dict(violations=violations, coverage=cov)


def replay_genesis(rp, binp, workdir, ctx):
    sig = rp["signature"]
    if rp["special"] == "genesis":
        cases = os.path.join(workdir, "rg.ndjson")
        open(cases, "w").write(json.dumps(dict(g=rp["g"])) + "\n")
        obs = os.path.join(workdir, "rgo.ndjson")
        harness(ctx, binp, ["genesis", "-in", cases, "-out", obs], rp["seed"])
    else:
        obs0 = os.path.join(workdir, "rro0.ndjson")
        harness(ctx, binp, ["reimport", "-first", str(rp["history"]), "-n", "1", "-depth", str(rp["step"]), "-out", obs0], rp["seed"])
        last = open(obs0).read().splitlines()[-1]
        obs = os.path.join(workdir, "rro.ndjson")
        open(obs, "w").write(last + "\n")
    vs = aux_validate(ctx, "GenTrace", "GenTrace.cfg", obs, workdir)
    return any(sig in v["fails"] for v in vs)


# ---------------------------------------------------------------------------------------------- C16

def run_codec(ctx, prop, tier, seed, binp, workdir):
    obs = os.path.join(workdir, "codec.ndjson")
    n = 400 if tier == "quick" else 20000
    harness(ctx, binp, ["codec", "-n", str(n), "-out", obs], seed)
    recs = {}
    for line in open(obs):
        r = json.loads(line)
        recs[r["id"]] = r
    verdicts = aux_validate(ctx, "Codec", "Codec.cfg", obs, workdir)
    bysig, kinds = {}, {}
    for v in verdicts:
        kinds[v["kind"]] = kinds.get(v["kind"], 0) + 1
        for sig in v["fails"]:
            bysig.setdefault(sig, v["id"])
    violations = []
    for sig, rid in sorted(bysig.items()):
        r = recs[rid]
        rp = write_replay(ctx, prop, seed, dict(special="codec", signature=sig, kind=r["kind"], **{"in": r["in"]}, first_observed=r["obs"]))
        if not replay(json.load(open(rp)), binp, workdir, ctx):
            raise ctx["Machinery"]("C16 counterexample %s did not reproduce (%s)" % (sig, rp))
        violations.append(dict(signature=sig, replay=rp))
    ex = recs[303]
    cov = dict(evaluations=len(recs), distinct_nontrivial=len({json.dumps(r["in"]) + r["kind"] for r in recs.values()}),
               traces_validated_against_impl=len(recs), vectors_by_kind=kinds,
               samples=[dict(kind=ex["kind"], input_len=len(ex["in"]) if isinstance(ex["in"], list) else None, observed=ex["obs"]["res"])])
    return dict(violations=violations, coverage=cov)


def replay_codec(rp, binp, workdir, ctx):
    inp = os.path.join(workdir, "cr.ndjson")
    open(inp, "w").write(json.dumps({"id": 1, "kind": rp["kind"], "in": rp["in"]}) + "\n")
    obs = os.path.join(workdir, "cro.ndjson")
    harness(ctx, binp, ["codecreplay", "-in", inp, "-out", obs], rp["seed"])
    vs = aux_validate(ctx, "Codec", "Codec.cfg", obs, workdir)
    return any(rp["signature"] in v["fails"] for v in vs)


# ---------------------------------------------------------------------------------------------- dispatch

FLOWS = {"genesis": run_genesis, "codec": run_codec}
REPLAYS = {"genesis": replay_genesis, "reimport": replay_genesis, "codec": replay_codec}


def run(special, prop, tier, seed, binp, workdir, ctx):
    return FLOWS[special](ctx, prop, tier, seed, binp, workdir)


def replay(rp, binp, workdir, ctx):
    return REPLAYS[rp["special"]](rp, binp, workdir, ctx)
