"""Stage and property tables for bin/check."""

STAGES = {
    # bounded models: TLC verifies the design-level properties and dumps every edge; each edge is executed on the code
    "roles": dict(kind="mc", module="MC_Roles", cfg="MC_Roles.cfg"),
}

def _t(quick, thorough=None):
    return dict(quick=quick, thorough=thorough if thorough is not None else quick)

PROP_STAGES = {
    "C10": _t(["roles"]),
    "C11": _t(["roles"]),
}

_COMMON = [
    "SDK branch/rollback (CacheContext) and message routing are the SDK's own and trusted",
    "bank / fiat-token-factory behave as the ledger double (exact-denom, positive amount, balance checks; may fail arbitrarily)",
    "behaviour is uniform inside each abstract input class; classes are re-instantiated per VERIF_SEED",
    "secp256k1 / Keccak are ideal (no forgeries, no collisions)",
]

def _meta(rule, level="model_checking", extra=(), special=None):
    return dict(level=level, rule=rule, assumptions=_COMMON + list(extra), special=special)

PROP_META = {
    "C10": _meta("every edge of MC_Roles executed on the real keeper; non-trivial = privileged transaction whose submitter is not the holder of its role in the pre-state (distinct (state, type, submitter, argument) tuples)"),
    "C11": _meta("every edge of MC_Roles executed on the real keeper; non-trivial = any transaction whose role slots are compared with the specification's (all edges are distinct (state, message) pairs)"),
}
