"""Stage and property tables for bin/check."""


def _mc(module, **kw):
    d = dict(kind="mc", module=module, cfg=dict(quick=module + ".cfg", thorough=module + "_T.cfg"))
    d.update(kw)
    return d


def _t(quick, thorough=None):
    return dict(quick=quick, thorough=thorough if thorough is not None else quick)


STAGES = {
    # bounded models: TLC verifies the design-level properties and dumps every edge; each edge is executed on the code
    "roles": _mc("MC_Roles"),
    "attesters": _mc("MC_Attesters"),
    "pause": _mc("MC_Pause"),
    "attest": _mc("MC_Attest"),
    "receive": _mc("MC_Receive"),
    "replay": _mc("MC_Replay"),
    "deposit": _mc("MC_Deposit"),
    "replace": _mc("MC_Replace"),
    "outbound": _mc("MC_Outbound"),
    "registry": _mc("MC_Registry"),
}

PROP_STAGES = {
    "C01": _t(["attest", "replace"]),
    "C02": _t(["replay", "receive"]),
    "C03": _t(["receive"]),
    "C04": _t(["receive", "replay"]),
    "C05": _t(["deposit", "outbound"]),
    "C06": _t(["deposit", "outbound", "replace"]),
    "C07": _t(["outbound", "deposit"]),
    "C08": _t(["deposit"]),
    "C09": _t(["replace", "outbound"]),
    "C14": _t(["deposit", "receive"]),
    "C15": _t(["roles", "registry", "pause"]),
    "C19": _t(["registry"]),
    "C10": _t(["roles"]),
    "C11": _t(["roles"]),
    "C12": _t(["pause"]),
    "C13": _t(["attesters"]),
}

_COMMON = [
    "SDK branch/rollback (CacheContext) and message routing are the SDK's own and trusted",
    "bank / fiat-token-factory behave as the ledger double (exact-denom, positive amount, balance checks; may fail arbitrarily)",
    "behaviour is uniform inside each abstract input class; classes are re-instantiated per VERIF_SEED",
    "secp256k1 / Keccak are ideal (no forgeries, no collisions)",
]


def _meta(rule, level="model_checking", extra=(), special=None):
    return dict(level=level, rule=rule, assumptions=_COMMON + list(extra), special=special)


PROP_META = {
    "C01": _meta("every (attester set, threshold, attestation) of MC_Attest concretised with real secp256k1 signatures and given to the exported verifier, to receive-message and to replace-message; non-trivial = distinct abstract (state, attestation, message type) triples"),
    "C02": _meta("every edge of MC_Replay (repeated receives of one key differing in body / recipient / encoding / submitter, interleaved with pause, attester rotation, re-linking; neighbouring keys) and of MC_Receive executed on the real keeper; the used-nonce set is read from the raw store after every transaction"),
    "C03": _meta("every edge of MC_Receive (product of the acceptance conditions x flag / used / pair / messenger states x mint outcome) executed on the real keeper; non-trivial = receive whose destination caller has zero high bytes"),
    "C04": _meta("every edge of MC_Receive and MC_Replay executed on the real keeper; mint requests recorded by value by the ledger double; events decoded and projected"),
    "C05": _meta("every edge of MC_Deposit and MC_Outbound executed on the real keeper against a ledger double with real bookkeeping; transfer / burn requests recorded by value; MessageSent decoded by the reference codec"),
    "C06": _meta("every successful producing / replacing transaction of MC_Deposit, MC_Outbound, MC_Replace: MessageSent decoded by the independent reference codec and compared field by field, DepositForBurn event compared; non-trivial = observed success"),
    "C07": _meta("every edge of MC_Outbound (all interleavings to bounded depth of the four producers, failures, ledger faults, replacements of outbox messages) and MC_Deposit executed on the real keeper"),
    "C08": _meta("every edge of MC_Deposit (product of the deposit preconditions incl. amounts around every limit, body size around 132, ledger failures) executed on the real keeper; non-trivial = deposit transactions"),
    "C09": _meta("every edge of MC_Replace (originals: own / other's / module deposits / foreign / truncated / junk; attestations valid / absent / rotated away; all flag states) and replacements inside MC_Outbound histories; non-trivial = replacement with a 32-byte new destination caller"),
    "C14": _meta("every edge of MC_Deposit and MC_Receive with every subset of ledger-call failures and the late validation failures after the burn; non-trivial = deposit / receive transactions", level="model_checking"),
    "C15": _meta("every edge of MC_Roles, MC_Registry, MC_Pause executed with a recording KVStoreService; raw-store diff and recorded write keys mapped to abstract keys and compared with the documented write sets", extra=["the static for-every-code-path half of the quantifier is approximated by executed-path coverage, not established"]),
    "C19": _meta("every edge of MC_Registry (add / remove / set over colliding, neighbouring and case-variant keys, bounded depth, from an empty and a populated configuration) executed on the real keeper; registries read back from the raw store"),
    "C10": _meta("every edge of MC_Roles executed on the real keeper; non-trivial = privileged transaction whose submitter is not the holder of its role in the pre-state (distinct (state, type, submitter, argument) tuples)"),
    "C11": _meta("every edge of MC_Roles executed on the real keeper; non-trivial = any transaction whose role slots are compared with the specification's (all edges are distinct (state, message) pairs)"),
    "C12": _meta("every edge of MC_Pause (4 flag states x 8 user flows x pause/unpause/admin actions, 2-3 transactions deep) executed on the real keeper"),
    "C13": _meta("every edge of MC_Attesters (all states with 1<=t<=n over the attester-string universe x all enable/disable/update messages) executed on the real keeper; non-trivial = pre-state satisfies the inequality"),
}
