#!/bin/bash
# usage: confirm_seed.sh <seed-dir containing patch.diff + *_test.go> [demo-dest-dir relative to repo, default x/cctp/keeper]
# Confirms, in a fresh scratch worktree: (1) patch applies and builds, (2) the existing suite passes with it,
# (3) the demo fails with it, (4) the demo passes without it.
set -u
sd="$(cd "$1" && pwd)"; dest="${2:-x/cctp/keeper}"
wt="$(mktemp -d /tmp/seedwt.XXXXXX)"; rmdir "$wt"
git -C /repo worktree add --detach "$wt" HEAD -f >/dev/null 2>&1 || exit 3
trap 'git -C /repo worktree remove --force "$wt" >/dev/null 2>&1; rm -rf "$wt"' EXIT
export GOPROXY=off GOSUMDB=off GOTOOLCHAIN=local
cd "$wt"
demo="$(ls "$sd"/*_test.go | head -1)"
git apply "$sd/patch.diff" || { echo "PATCH DOES NOT APPLY"; exit 1; }
go build ./... || { echo "DOES NOT BUILD"; exit 1; }
if go test -vet=off -count=1 ./... >/tmp/seed_suite.$$ 2>&1; then echo "suite with change: PASS"; else echo "suite with change: FAIL"; tail -5 /tmp/seed_suite.$$; fi
cp "$demo" "$dest/"
if go test -vet=off -count=1 ./$dest/ -run 'Seed' >/tmp/seed_demo.$$ 2>&1; then echo "demo with change: PASS (BAD)"; else echo "demo with change: FAIL (as required)"; fi
git apply -R "$sd/patch.diff"
if go test -vet=off -count=1 ./$dest/ -run 'Seed' >/tmp/seed_demo2.$$ 2>&1; then echo "demo without change: PASS (as required)"; else echo "demo without change: FAIL (BAD)"; tail -5 /tmp/seed_demo2.$$; fi
rm -f /tmp/seed_suite.$$ /tmp/seed_demo.$$ /tmp/seed_demo2.$$
