#!/usr/bin/env python3
"""mut.py build            -- (re)creates selftest/mutants/*.diff in a scratch worktree; checks each compiles and passes the repo tests
   mut.py run [name...]    -- runs the owning property's quick check against each mutant (scratch worktree); prints a table
"""
import sys, os, subprocess, json, tempfile, shutil, time
HERE = os.path.dirname(os.path.abspath(__file__))
sys.path.insert(0, HERE)
from catalogue import MUTANTS, BENIGN
for _k, _v in BENIGN.items():
    MUTANTS[_k] = ('ALL', _v)
MD = os.path.join(HERE, "mutants")
GOENV = dict(os.environ, GOPROXY="off", GOSUMDB="off", GOTOOLCHAIN="local")


def sh(cmd, **kw):
    return subprocess.run(cmd, capture_output=True, text=True, **kw)


def worktree():
    wt = tempfile.mkdtemp(prefix="mutbuild.", dir="/tmp")
    os.rmdir(wt)
    r = sh(["git", "-C", "/repo", "worktree", "add", "--detach", wt, "HEAD", "-f"])
    assert r.returncode == 0, r.stderr
    return wt


def drop(wt):
    sh(["git", "-C", "/repo", "worktree", "remove", "--force", wt])
    shutil.rmtree(wt, ignore_errors=True)


def build(names):
    os.makedirs(MD, exist_ok=True)
    wt = worktree()
    status = {}
    try:
        for name in names:
            prop, edits = MUTANTS[name]
            sh(["git", "-C", wt, "reset", "--hard", "HEAD"])
            if isinstance(edits, str):
                c = sh(["git", "-C", "/repo", "log", "--format=%H", "--grep", edits[len("revert:"):]]).stdout.split()[0]
                r = sh(["git", "-C", wt, "revert", "--no-commit", c])
                assert r.returncode == 0, (name, r.stderr)
            else:
                for f, old, new in edits:
                    p = os.path.join(wt, f)
                    s = open(p).read()
                    assert s.count(old) == 1, (name, f, old, s.count(old))
                    open(p, "w").write(s.replace(old, new))
            diff = sh(["git", "-C", wt, "diff", "HEAD"]).stdout
            open(os.path.join(MD, name + ".diff"), "w").write(diff)
            b = sh(["go", "build", "./..."], cwd=wt, env=GOENV)
            if b.returncode != 0:
                # unused imports are the usual reason: report
                status[name] = "DOES NOT COMPILE: " + b.stderr[-300:]
                print(name, status[name]); continue
            t = sh(["go", "test", "-vet=off", "-count=1", "./..."], cwd=wt, env=GOENV)
            status[name] = "compiles, repo tests " + ("PASS" if t.returncode == 0 else "FAIL")
            print(name, status[name], flush=True)
    finally:
        drop(wt)
    sp = os.path.join(MD, "STATUS.json")
    old = json.load(open(sp)) if os.path.exists(sp) else {}
    old.update(status)
    json.dump(old, open(sp, "w"), indent=1, sort_keys=True)


ALLPROPS = ["C%02d" % i for i in range(1, 21)]


def run_benign(names):
    """every check must exit 0 on a property-preserving change"""
    bad = 0
    for name in names:
        for prop in ALLPROPS:
            r = sh([os.path.join(HERE, "run_mutant.sh"), os.path.join(MD, name + ".diff"), prop])
            out = r.stdout + r.stderr
            code = ([l for l in out.splitlines() if l.startswith("exit=")] or ["exit=?"])[-1]
            print("%-40s %s %s" % (name, prop, code), flush=True)
            if code != "exit=0":
                bad += 1
                print("    " + "\n    ".join(out.splitlines()[-8:]))
    print("false alarms / failures: %d" % bad)


def run(names):
    rows = []
    for name in names:
        if name in BENIGN:
            continue
        prop, _ = MUTANTS[name]
        t0 = time.time()
        r = sh([os.path.join(HERE, "run_mutant.sh"), os.path.join(MD, name + ".diff"), prop])
        out = r.stdout + r.stderr
        code = [l for l in out.splitlines() if l.startswith("exit=")]
        code = code[-1] if code else "exit=?"
        rows.append((name, prop, code, "%.0fs" % (time.time() - t0)))
        print("%-36s %s %s %s" % rows[-1], flush=True)
        if code not in ("exit=1",):
            print("    " + "\n    ".join(out.splitlines()[-6:]))
    caught = sum(1 for r in rows if r[2] == "exit=1")
    print("caught %d of %d" % (caught, len(rows)))


if __name__ == "__main__":
    cmd = sys.argv[1]
    names = sys.argv[2:] or sorted(MUTANTS)
    {"build": build, "run": run, "benign": run_benign}[cmd](names if sys.argv[2:] else (sorted(BENIGN) if cmd == "benign" else names))
