#!/bin/bash
# usage: run_mutant.sh <patch-file|revert:<commit>> <PROP> [tier]
# Applies a source change to a scratch worktree of /repo (never to /repo itself), runs the property's check
# against it with VERIF_REPO, prints the exit code, removes the worktree and its build output.
set -u
patch="$1"; prop="$2"; tier="${3:-quick}"
VERIF_DIR="$(cd "$(dirname "$0")/.." && pwd)"
case "$patch" in revert:*) ;; /*) ;; *) patch="$(pwd)/$patch" ;; esac
wt="/tmp/mutwt.$(printf %s "$patch" | sha1sum | cut -c1-10).$$"
git -C /repo worktree add --detach "$wt" HEAD -f >/dev/null 2>&1 || { echo "worktree failed"; exit 3; }
cleanup() { git -C /repo worktree remove --force "$wt" >/dev/null 2>&1; rm -rf "$wt"; rm -f "$VERIF_DIR"/out/bin/verif-harness-$(printf %s "$wt" | sha1sum | cut -c1-8); }
trap cleanup EXIT
case "$patch" in
  revert:*) git -C "$wt" revert --no-commit "${patch#revert:}" >/dev/null 2>&1 || { echo "revert failed"; exit 3; } ;;
  *) git -C "$wt" apply "$patch" || { echo "patch does not apply"; exit 3; } ;;
esac
if [ "${RUN_REPO_TESTS:-0}" = 1 ]; then
  (cd "$wt" && GOPROXY=off GOSUMDB=off GOTOOLCHAIN=local go test -vet=off -count=1 ./... >/tmp/mut_tests.$$ 2>&1) && echo "repo tests: PASS" || { echo "repo tests: FAIL"; tail -5 /tmp/mut_tests.$$; }
  rm -f /tmp/mut_tests.$$
fi
cd "$VERIF_DIR" && VERIF_REPO="$wt" VERIF_TIER="$tier" bin/check "$prop" 2>&1 | grep -v "^\[check\] stage" | tail -4
echo "exit=${PIPESTATUS[0]}"
