#!/bin/bash
# runs the owning property's quick check against every seeded change; prints a table
cd "$(dirname "$0")/.."
for d in seeded/*/; do p=$(basename $d); p=${p%b}; p=${p%c}; p=${p%d}; p=${p%e}; r=$(selftest/run_mutant.sh $d/patch.diff $p 2>&1 | grep "^exit=" | tail -1); echo "seed $(basename $d) $r"; done
