package main

// C16: vectors through the module's Parse / Bytes, observed for Codec.tla.
// Numbers are converted to big-endian byte sequences here with encoding/binary and math/big.

import (
	"bufio"
	"encoding/binary"
	"encoding/json"
	"fmt"
	"math/big"
	"math/rand"
	"os"

	sdkmath "cosmossdk.io/math"

	"github.com/circlefin/noble-cctp/x/cctp/types"
)

func ints(bz []byte) []int {
	out := make([]int, len(bz))
	for i, b := range bz {
		out[i] = int(b)
	}
	return out
}
func be32(v uint32) []byte { b := make([]byte, 4); binary.BigEndian.PutUint32(b, v); return b }
func be64(v uint64) []byte { b := make([]byte, 8); binary.BigEndian.PutUint64(b, v); return b }

func msgFields(m *types.Message) M {
	return M{"ver": ints(be32(m.Version)), "src": ints(be32(m.SourceDomain)), "dst": ints(be32(m.DestinationDomain)),
		"nonce": ints(be64(m.Nonce)), "sender": ints(m.Sender), "rcpt": ints(m.Recipient), "caller": ints(m.DestinationCaller),
		"body": ints(m.MessageBody)}
}
func burnFields(b *types.BurnMessage) M {
	amt := make([]byte, 32)
	if !b.Amount.IsNil() && b.Amount.BigInt().Sign() >= 0 && b.Amount.BigInt().BitLen() <= 256 {
		b.Amount.BigInt().FillBytes(amt)
	}
	return M{"ver": ints(be32(b.Version)), "tok": ints(b.BurnToken), "rcpt": ints(b.MintRecipient), "amt": ints(amt), "sender": ints(b.MessageSender)}
}

func cmdCodec(bw *bufio.Writer, n int, seed int64) {
	r := rand.New(rand.NewSource(seed))
	id := 0
	var prevIn any // for vectors decoded into a reused receiver: the input that was decoded into it before
	emit := func(kind string, in any, obs M) {
		id++
		rec := M{"id": id, "kind": kind, "in": in, "obs": obs}
		if prevIn != nil {
			rec["prev"] = prevIn
		}
		bz, _ := json.Marshal(rec)
		bw.Write(bz)
		bw.WriteByte('\n')
	}
	rnd := func(n int) []byte {
		b := make([]byte, n)
		r.Read(b)
		if n > 0 && r.Intn(4) == 0 { // sometimes sparse / patterned content
			for i := range b {
				if r.Intn(3) > 0 {
					b[i] = 0
				}
			}
		}
		return b
	}
	parseMsg := func(bz []byte) {
		obs := M{"res": "err", "fields": 0, "reenc": 0}
		res := guard(func() {
			m, err := new(types.Message).Parse(append([]byte{}, bz...))
			if err == nil {
				obs["res"] = "ok"
				obs["fields"] = msgFields(m)
				if re, err2 := m.Bytes(); err2 == nil {
					obs["reenc"] = ints(re)
				}
			}
		})
		if res == "panic" {
			obs["res"] = "panic"
		}
		emit("msg_parse", ints(bz), obs)
	}
	parseBurn := func(bz []byte) {
		obs := M{"res": "err", "fields": 0, "reenc": 0}
		res := guard(func() {
			b, err := new(types.BurnMessage).Parse(append([]byte{}, bz...))
			if err == nil {
				obs["res"] = "ok"
				obs["fields"] = burnFields(b)
				if re, err2 := b.Bytes(); err2 == nil {
					obs["reenc"] = ints(re)
				}
			}
		})
		if res == "panic" {
			obs["res"] = "panic"
		}
		emit("burn_parse", ints(bz), obs)
	}
	// every length 0..300 for both decoders (the burn decoder accepts exactly 132)
	for l := 0; l <= 300; l++ {
		parseMsg(rnd(l))
		parseBurn(rnd(l))
	}
	for k := 0; k < n; k++ {
		parseMsg(rnd(116 + r.Intn(200)))
		parseBurn(rnd(132))
	}
	// decoders on a REUSED receiver: what an earlier input left in the value must not leak into the next result
	reusedM, reusedB := new(types.Message), new(types.BurnMessage)
	var lastM, lastB any = []int{}, []int{}
	for k := 0; k < n/4+40; k++ {
		l := []int{116, 116, 117, 248, 116 + r.Intn(100), 115, 0}[r.Intn(7)]
		bz := rnd(l)
		obs := M{"res": "err", "fields": 0, "reenc": 0}
		res := guard(func() {
			m, err := reusedM.Parse(append([]byte{}, bz...))
			if err == nil {
				obs["res"], obs["fields"] = "ok", msgFields(m)
				if re, err2 := m.Bytes(); err2 == nil {
					obs["reenc"] = ints(re)
				}
			}
		})
		if res == "panic" {
			obs["res"] = "panic"
		}
		prevIn = lastM
		emit("msg_parse", ints(bz), obs)
		if len(bz) > 116 { // the most recent input that left a body in the receiver
			lastM = ints(bz)
		}
		bb := rnd([]int{132, 132, 131, 133}[r.Intn(4)])
		obsb := M{"res": "err", "fields": 0, "reenc": 0}
		res = guard(func() {
			b, err := reusedB.Parse(append([]byte{}, bb...))
			if err == nil {
				obsb["res"], obsb["fields"] = "ok", burnFields(b)
				if re, err2 := b.Bytes(); err2 == nil {
					obsb["reenc"] = ints(re)
				}
			}
		})
		if res == "panic" {
			obsb["res"] = "panic"
		}
		prevIn = lastB
		emit("burn_parse", ints(bb), obsb)
		lastB = ints(bb)
	}
	prevIn = nil
	// encoders: well-formed and ill-formed field sizes
	sizes := []int{32, 32, 32, 32, 32, 32, 0, 1, 20, 31, 33, 64}
	boundary := []*big.Int{big.NewInt(0), big.NewInt(1), new(big.Int).Lsh(big.NewInt(1), 64), new(big.Int).Lsh(big.NewInt(1), 255),
		new(big.Int).Sub(new(big.Int).Lsh(big.NewInt(1), 256), big.NewInt(1))}
	// field sizes that are individually wrong but add up to the right total
	cancel := [][3]int{{31, 33, 32}, {33, 31, 32}, {32, 31, 33}, {30, 32, 34}, {0, 64, 32}, {64, 0, 32}, {0, 0, 96}, {16, 48, 32}, {32, 0, 64}}
	cancelB := [][3]int{{31, 33, 32}, {33, 32, 31}, {0, 64, 32}, {32, 64, 0}, {48, 16, 32}}
	for k := 0; k < n+50; k++ {
		ss := [3]int{sizes[r.Intn(len(sizes))], sizes[r.Intn(len(sizes))], sizes[r.Intn(len(sizes))]}
		if k%7 == 3 {
			ss = cancel[r.Intn(len(cancel))]
		}
		m := types.Message{Version: r.Uint32(), SourceDomain: r.Uint32(), DestinationDomain: r.Uint32(), Nonce: r.Uint64(),
			Sender: rnd(ss[0]), Recipient: rnd(ss[1]), DestinationCaller: rnd(ss[2]),
			MessageBody: rnd(r.Intn(200))}
		if k%3 == 0 {
			m.Version, m.SourceDomain, m.Nonce = uint32(r.Intn(3)), 4, uint64(r.Intn(1000))
		}
		in := msgFields(&m)
		obs := M{"res": "err", "bytes": 0, "back": 0}
		res := guard(func() {
			bz, err := m.Bytes()
			if err == nil {
				obs["res"], obs["bytes"] = "ok", ints(bz)
				if back, err2 := new(types.Message).Parse(bz); err2 == nil {
					obs["back"] = msgFields(back)
				}
			}
		})
		if res == "panic" {
			obs["res"] = "panic"
		}
		emit("msg_bytes", in, obs)

		amt := new(big.Int).SetBytes(rnd(1 + r.Intn(32)))
		if k < len(boundary)*2 {
			amt = boundary[k%len(boundary)]
		}
		sb := [3]int{sizes[r.Intn(len(sizes))], sizes[r.Intn(len(sizes))], sizes[r.Intn(len(sizes))]}
		if k%7 == 5 {
			sb = cancelB[r.Intn(len(cancelB))]
		}
		b := types.BurnMessage{Version: r.Uint32(), BurnToken: rnd(sb[0]), MintRecipient: rnd(sb[1]),
			Amount: sdkmath.NewIntFromBigInt(amt), MessageSender: rnd(sb[2])}
		inb := burnFields(&b)
		obsb := M{"res": "err", "bytes": 0, "back": 0}
		res = guard(func() {
			bz, err := b.Bytes()
			if err == nil {
				obsb["res"], obsb["bytes"] = "ok", ints(bz)
				if back, err2 := new(types.BurnMessage).Parse(bz); err2 == nil {
					obsb["back"] = burnFields(back)
				}
			}
		})
		if res == "panic" {
			obsb["res"] = "panic"
		}
		emit("burn_bytes", inb, obsb)
	}
	// well-formed encodes in an order that exposes memory kept between calls: every later value is narrower / shorter
	// than the one before it (a recycled buffer shows through), then wider again
	widths := []int{32, 20, 9, 8, 3, 1, 0, 32, 1}
	for _, w := range widths {
		amt := new(big.Int)
		if w > 0 {
			bz := rnd(w)
			bz[0] |= 0x80
			amt.SetBytes(bz)
		}
		b := types.BurnMessage{Version: 0, BurnToken: rnd(32), MintRecipient: rnd(32), Amount: sdkmath.NewIntFromBigInt(amt), MessageSender: rnd(32)}
		obsb := M{"res": "err", "bytes": 0, "back": 0}
		if res := guard(func() {
			if bz, err := b.Bytes(); err == nil {
				obsb["res"], obsb["bytes"] = "ok", ints(bz)
				if back, err2 := new(types.BurnMessage).Parse(bz); err2 == nil {
					obsb["back"] = burnFields(back)
				}
			}
		}); res == "panic" {
			obsb["res"] = "panic"
		}
		emit("burn_bytes", burnFields(&b), obsb)
		m := types.Message{Version: 0, SourceDomain: 4, DestinationDomain: uint32(w), Nonce: uint64(w), Sender: rnd(32), Recipient: rnd(32),
			DestinationCaller: rnd(32), MessageBody: rnd(w * 6)}
		obs := M{"res": "err", "bytes": 0, "back": 0}
		if res := guard(func() {
			if bz, err := m.Bytes(); err == nil {
				obs["res"], obs["bytes"] = "ok", ints(bz)
				if back, err2 := new(types.Message).Parse(bz); err2 == nil {
					obs["back"] = msgFields(back)
				}
			}
		}); res == "panic" {
			obs["res"] = "panic"
		}
		emit("msg_bytes", msgFields(&m), obs)
	}
	fmt.Fprintf(os.Stderr, "codec: %d vectors\n", id)
}

func toBytes(v any) []byte {
	a, _ := v.([]any)
	out := make([]byte, len(a))
	for i, x := range a {
		out[i] = byte(seti(x))
	}
	return out
}

// cmdCodecReplay re-executes vectors given as {id, kind, in}.
func cmdCodecReplay(rd *os.File, bw *bufio.Writer) {
	sc := bufio.NewScanner(rd)
	sc.Buffer(make([]byte, 1<<20), 1<<26)
	for sc.Scan() {
		rec, ok := parseLine(sc.Bytes())
		if !ok {
			continue
		}
		kind := gets(rec, "kind")
		obs := M{"res": "err", "fields": 0, "reenc": 0, "bytes": 0, "back": 0}
		res := guard(func() {
			switch kind {
			case "msg_parse":
				recv := new(types.Message)
				if rec["prev"] != nil {
					recv.Parse(toBytes(rec["prev"]))
				}
				if m, err := recv.Parse(toBytes(rec["in"])); err == nil {
					obs["res"], obs["fields"] = "ok", msgFields(m)
					if re, err2 := m.Bytes(); err2 == nil {
						obs["reenc"] = ints(re)
					}
				}
			case "burn_parse":
				recvb := new(types.BurnMessage)
				if rec["prev"] != nil {
					recvb.Parse(toBytes(rec["prev"]))
				}
				if b, err := recvb.Parse(toBytes(rec["in"])); err == nil {
					obs["res"], obs["fields"] = "ok", burnFields(b)
					if re, err2 := b.Bytes(); err2 == nil {
						obs["reenc"] = ints(re)
					}
				}
			case "msg_bytes":
				f := getm(rec, "in")
				m := types.Message{Version: binary.BigEndian.Uint32(toBytes(f["ver"])), SourceDomain: binary.BigEndian.Uint32(toBytes(f["src"])),
					DestinationDomain: binary.BigEndian.Uint32(toBytes(f["dst"])), Nonce: binary.BigEndian.Uint64(toBytes(f["nonce"])),
					Sender: toBytes(f["sender"]), Recipient: toBytes(f["rcpt"]), DestinationCaller: toBytes(f["caller"]), MessageBody: toBytes(f["body"])}
				if bz, err := m.Bytes(); err == nil {
					obs["res"], obs["bytes"] = "ok", ints(bz)
					if back, err2 := new(types.Message).Parse(bz); err2 == nil {
						obs["back"] = msgFields(back)
					}
				}
			case "burn_bytes":
				f := getm(rec, "in")
				b := types.BurnMessage{Version: binary.BigEndian.Uint32(toBytes(f["ver"])), BurnToken: toBytes(f["tok"]), MintRecipient: toBytes(f["rcpt"]),
					Amount: sdkmath.NewIntFromBigInt(new(big.Int).SetBytes(toBytes(f["amt"]))), MessageSender: toBytes(f["sender"])}
				if bz, err := b.Bytes(); err == nil {
					obs["res"], obs["bytes"] = "ok", ints(bz)
					if back, err2 := new(types.BurnMessage).Parse(bz); err2 == nil {
						obs["back"] = burnFields(back)
					}
				}
			}
		})
		if res == "panic" {
			obs["res"] = "panic"
		}
		bz, _ := json.Marshal(M{"id": rec["id"], "kind": kind, "in": rec["in"], "obs": obs})
		bw.Write(bz)
		bw.WriteByte('\n')
	}
}
