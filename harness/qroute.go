package main

// The 19 queries as a client sees them: request bytes into the application's gRPC query router (the services
// are registered by AppModule.RegisterServices), response bytes back.

import (
	"context"

	abci "github.com/cometbft/cometbft/abci/types"
	"github.com/cosmos/gogoproto/proto"

	"github.com/circlefin/noble-cctp/x/cctp/types"
)

type routed struct{ in *Instance }

func route[Resp proto.Message](r routed, method string, req proto.Message, resp Resp) (Resp, error) {
	var zero Resp
	h := r.in.gqr.Route("/circle.cctp.v1.Query/" + method)
	if h == nil {
		panic("query route not registered: " + method)
	}
	bz, err := proto.Marshal(req)
	if err != nil {
		panic(err)
	}
	res, err := h(r.in.ctx, &abci.RequestQuery{Data: bz})
	if err != nil {
		return zero, err
	}
	if err := proto.Unmarshal(res.Value, resp); err != nil {
		return zero, err
	}
	return resp, nil
}

func (r routed) Roles(_ context.Context, req *types.QueryRolesRequest) (*types.QueryRolesResponse, error) {
	return route(r, "Roles", req, &types.QueryRolesResponse{})
}
func (r routed) Attester(_ context.Context, req *types.QueryGetAttesterRequest) (*types.QueryGetAttesterResponse, error) {
	return route(r, "Attester", req, &types.QueryGetAttesterResponse{})
}
func (r routed) Attesters(_ context.Context, req *types.QueryAllAttestersRequest) (*types.QueryAllAttestersResponse, error) {
	return route(r, "Attesters", req, &types.QueryAllAttestersResponse{})
}
func (r routed) PerMessageBurnLimit(_ context.Context, req *types.QueryGetPerMessageBurnLimitRequest) (*types.QueryGetPerMessageBurnLimitResponse, error) {
	return route(r, "PerMessageBurnLimit", req, &types.QueryGetPerMessageBurnLimitResponse{})
}
func (r routed) PerMessageBurnLimits(_ context.Context, req *types.QueryAllPerMessageBurnLimitsRequest) (*types.QueryAllPerMessageBurnLimitsResponse, error) {
	return route(r, "PerMessageBurnLimits", req, &types.QueryAllPerMessageBurnLimitsResponse{})
}
func (r routed) BurningAndMintingPaused(_ context.Context, req *types.QueryGetBurningAndMintingPausedRequest) (*types.QueryGetBurningAndMintingPausedResponse, error) {
	return route(r, "BurningAndMintingPaused", req, &types.QueryGetBurningAndMintingPausedResponse{})
}
func (r routed) SendingAndReceivingMessagesPaused(_ context.Context, req *types.QueryGetSendingAndReceivingMessagesPausedRequest) (*types.QueryGetSendingAndReceivingMessagesPausedResponse, error) {
	return route(r, "SendingAndReceivingMessagesPaused", req, &types.QueryGetSendingAndReceivingMessagesPausedResponse{})
}
func (r routed) MaxMessageBodySize(_ context.Context, req *types.QueryGetMaxMessageBodySizeRequest) (*types.QueryGetMaxMessageBodySizeResponse, error) {
	return route(r, "MaxMessageBodySize", req, &types.QueryGetMaxMessageBodySizeResponse{})
}
func (r routed) NextAvailableNonce(_ context.Context, req *types.QueryGetNextAvailableNonceRequest) (*types.QueryGetNextAvailableNonceResponse, error) {
	return route(r, "NextAvailableNonce", req, &types.QueryGetNextAvailableNonceResponse{})
}
func (r routed) SignatureThreshold(_ context.Context, req *types.QueryGetSignatureThresholdRequest) (*types.QueryGetSignatureThresholdResponse, error) {
	return route(r, "SignatureThreshold", req, &types.QueryGetSignatureThresholdResponse{})
}
func (r routed) TokenPair(_ context.Context, req *types.QueryGetTokenPairRequest) (*types.QueryGetTokenPairResponse, error) {
	return route(r, "TokenPair", req, &types.QueryGetTokenPairResponse{})
}
func (r routed) TokenPairs(_ context.Context, req *types.QueryAllTokenPairsRequest) (*types.QueryAllTokenPairsResponse, error) {
	return route(r, "TokenPairs", req, &types.QueryAllTokenPairsResponse{})
}
func (r routed) UsedNonce(_ context.Context, req *types.QueryGetUsedNonceRequest) (*types.QueryGetUsedNonceResponse, error) {
	return route(r, "UsedNonce", req, &types.QueryGetUsedNonceResponse{})
}
func (r routed) UsedNonces(_ context.Context, req *types.QueryAllUsedNoncesRequest) (*types.QueryAllUsedNoncesResponse, error) {
	return route(r, "UsedNonces", req, &types.QueryAllUsedNoncesResponse{})
}
func (r routed) RemoteTokenMessenger(_ context.Context, req *types.QueryRemoteTokenMessengerRequest) (*types.QueryRemoteTokenMessengerResponse, error) {
	return route(r, "RemoteTokenMessenger", req, &types.QueryRemoteTokenMessengerResponse{})
}
func (r routed) RemoteTokenMessengers(_ context.Context, req *types.QueryRemoteTokenMessengersRequest) (*types.QueryRemoteTokenMessengersResponse, error) {
	return route(r, "RemoteTokenMessengers", req, &types.QueryRemoteTokenMessengersResponse{})
}
func (r routed) BurnMessageVersion(_ context.Context, req *types.QueryBurnMessageVersionRequest) (*types.QueryBurnMessageVersionResponse, error) {
	return route(r, "BurnMessageVersion", req, &types.QueryBurnMessageVersionResponse{})
}
func (r routed) LocalMessageVersion(_ context.Context, req *types.QueryLocalMessageVersionRequest) (*types.QueryLocalMessageVersionResponse, error) {
	return route(r, "LocalMessageVersion", req, &types.QueryLocalMessageVersionResponse{})
}
func (r routed) LocalDomain(_ context.Context, req *types.QueryLocalDomainRequest) (*types.QueryLocalDomainResponse, error) {
	return route(r, "LocalDomain", req, &types.QueryLocalDomainResponse{})
}

var _ types.QueryServer = routed{}
