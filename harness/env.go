package main

// One Instance = one chain: a multistore with the cctp store and the ledger double's store,
// the real keeper from /repo, a real baseapp.MsgServiceRouter, and a transaction runner that
// does what baseapp.runMsgs does (branch, route, write back only on nil error).

import (
	"context"
	"encoding/hex"
	"fmt"
	"math/big"
	"sort"

	corestore "cosmossdk.io/core/store"
	"cosmossdk.io/log"
	sdkmath "cosmossdk.io/math"
	"cosmossdk.io/store"
	"cosmossdk.io/store/metrics"
	storetypes "cosmossdk.io/store/types"
	cmtproto "github.com/cometbft/cometbft/proto/tendermint/types"
	db "github.com/cosmos/cosmos-db"
	"github.com/cosmos/cosmos-sdk/baseapp"
	"github.com/cosmos/cosmos-sdk/codec"
	codectypes "github.com/cosmos/cosmos-sdk/codec/types"
	"github.com/cosmos/cosmos-sdk/runtime"
	sdk "github.com/cosmos/cosmos-sdk/types"
	"github.com/cosmos/cosmos-sdk/types/module"
	authtypes "github.com/cosmos/cosmos-sdk/x/auth/types"
	"github.com/cosmos/gogoproto/proto"

	ftftypes "github.com/circlefin/noble-fiattokenfactory/x/fiattokenfactory/types"

	cctp "github.com/circlefin/noble-cctp/x/cctp"
	"github.com/circlefin/noble-cctp/x/cctp/keeper"
	"github.com/circlefin/noble-cctp/x/cctp/types"
)

var ModuleAddress = authtypes.NewModuleAddress("cctp")

// ---- ledger double -----------------------------------------------------------------------

type LedgerCall struct {
	Fn     string
	From   string // address string as given by the module
	To     string
	Denom  string
	Amount *big.Int
	OK     bool
	// in-branch view of the module store at the moment of the call (raw keys)
	SeesUsed [][]byte
}

type Ledger struct {
	key       *storetypes.KVStoreKey
	mintDenom string
	faults    []bool // one per call, true = environment lets it succeed
	ncall     int
	calls     []LedgerCall
	cctpKey   *storetypes.KVStoreKey
	// panicFaults: a refused call panics instead of returning an error (a dependency keeper that panics, as the real
	// bank keeper does for a missing module account); the application turns such a panic into a failed transaction
	panicFaults bool
	panicked    bool
}

type ledgerPanic struct{ what string }

func (l *Ledger) refuse(what string) error {
	if l.panicFaults {
		l.panicked = true
		panic(ledgerPanic{what})
	}
	return fmt.Errorf("ledger double: %s refused", what)
}

func (l *Ledger) env() bool {
	ok := true
	if l.ncall < len(l.faults) {
		ok = l.faults[l.ncall]
	}
	l.ncall++
	return ok
}

func balKey(addr []byte, denom string) []byte {
	return []byte("bal/" + hex.EncodeToString(addr) + "/" + denom)
}
func supKey(denom string) []byte { return []byte("sup/" + denom) }

func getBig(st storetypes.KVStore, k []byte) *big.Int {
	bz := st.Get(k)
	v := new(big.Int)
	if bz != nil {
		v.SetString(string(bz), 10)
	}
	return v
}
func setBig(st storetypes.KVStore, k []byte, v *big.Int) {
	if v.Sign() == 0 {
		st.Delete(k)
		return
	}
	st.Set(k, []byte(v.String()))
}

func (l *Ledger) usedKeys(ctx context.Context) [][]byte {
	sctx := sdk.UnwrapSDKContext(ctx)
	st := sctx.KVStore(l.cctpKey)
	it := storetypes.KVStorePrefixIterator(st, []byte("UsedNonce/value/"))
	defer it.Close()
	var out [][]byte
	for ; it.Valid(); it.Next() {
		out = append(out, append([]byte{}, it.Key()...))
	}
	return out
}

func (l *Ledger) GetBalance(ctx context.Context, addr sdk.AccAddress, denom string) sdk.Coin {
	st := sdk.UnwrapSDKContext(ctx).KVStore(l.key)
	return sdk.Coin{Denom: denom, Amount: sdkmath.NewIntFromBigInt(getBig(st, balKey(addr, denom)))}
}

func (l *Ledger) SendCoinsFromAccountToModule(ctx context.Context, senderAddr sdk.AccAddress, recipientModule string, amt sdk.Coins) error {
	st := sdk.UnwrapSDKContext(ctx).KVStore(l.key)
	env := l.env()
	call := LedgerCall{Fn: "Transfer", From: senderAddr.String(), To: recipientModule, SeesUsed: l.usedKeys(ctx)}
	if len(amt) == 1 {
		call.Denom, call.Amount = amt[0].Denom, amt[0].Amount.BigInt()
	} else {
		call.Denom, call.Amount = fmt.Sprintf("<%d coins>", len(amt)), big.NewInt(0)
	}
	ok := env && recipientModule == "cctp" && len(amt) == 1 && amt[0].Amount.IsPositive()
	if ok {
		ok = getBig(st, balKey(senderAddr, amt[0].Denom)).Cmp(amt[0].Amount.BigInt()) >= 0
	}
	call.OK = ok
	l.calls = append(l.calls, call)
	if !ok {
		return l.refuse("transfer")
	}
	a := amt[0].Amount.BigInt()
	setBig(st, balKey(senderAddr, amt[0].Denom), new(big.Int).Sub(getBig(st, balKey(senderAddr, amt[0].Denom)), a))
	setBig(st, balKey(ModuleAddress, amt[0].Denom), new(big.Int).Add(getBig(st, balKey(ModuleAddress, amt[0].Denom)), a))
	return nil
}

func (l *Ledger) Burn(ctx sdk.Context, msg *ftftypes.MsgBurn) (*ftftypes.MsgBurnResponse, error) {
	st := ctx.KVStore(l.key)
	env := l.env()
	call := LedgerCall{Fn: "Burn", From: msg.From, To: "", Denom: msg.Amount.Denom, SeesUsed: l.usedKeys(ctx)}
	if !msg.Amount.Amount.IsNil() {
		call.Amount = msg.Amount.Amount.BigInt()
	}
	// pinned fiat-token-factory: minter must be registered (only the cctp module is), exact denom, positive amount
	ok := env && msg.From == ModuleAddress.String() && msg.Amount.Denom == l.mintDenom &&
		!msg.Amount.Amount.IsNil() && msg.Amount.Amount.IsPositive()
	if ok {
		ok = getBig(st, balKey(ModuleAddress, l.mintDenom)).Cmp(msg.Amount.Amount.BigInt()) >= 0
	}
	call.OK = ok
	l.calls = append(l.calls, call)
	if !ok {
		return nil, l.refuse("burn")
	}
	a := msg.Amount.Amount.BigInt()
	setBig(st, balKey(ModuleAddress, l.mintDenom), new(big.Int).Sub(getBig(st, balKey(ModuleAddress, l.mintDenom)), a))
	setBig(st, supKey(l.mintDenom), new(big.Int).Sub(getBig(st, supKey(l.mintDenom)), a))
	return &ftftypes.MsgBurnResponse{}, nil
}

func (l *Ledger) Mint(ctx sdk.Context, msg *ftftypes.MsgMint) (*ftftypes.MsgMintResponse, error) {
	st := ctx.KVStore(l.key)
	env := l.env()
	call := LedgerCall{Fn: "Mint", From: msg.From, To: msg.Address, Denom: msg.Amount.Denom, SeesUsed: l.usedKeys(ctx)}
	if !msg.Amount.Amount.IsNil() {
		call.Amount = msg.Amount.Amount.BigInt()
	}
	to, err := sdk.AccAddressFromBech32(msg.Address)
	ok := env && err == nil && msg.From == ModuleAddress.String() && msg.Amount.Denom == l.mintDenom &&
		!msg.Amount.Amount.IsNil() && msg.Amount.Amount.IsPositive()
	call.OK = ok
	l.calls = append(l.calls, call)
	if !ok {
		return nil, l.refuse("mint")
	}
	a := msg.Amount.Amount.BigInt()
	setBig(st, balKey(to, l.mintDenom), new(big.Int).Add(getBig(st, balKey(to, l.mintDenom)), a))
	setBig(st, supKey(l.mintDenom), new(big.Int).Add(getBig(st, supKey(l.mintDenom)), a))
	return &ftftypes.MsgMintResponse{}, nil
}

func (l *Ledger) GetMintingDenom(ctx context.Context) ftftypes.MintingDenom {
	return ftftypes.MintingDenom{Denom: l.mintDenom}
}

// ---- recording store service (C15) -------------------------------------------------------

type recService struct {
	inner corestore.KVStoreService
	rec   *[]WriteRec
	on    *bool
}
type WriteRec struct {
	Op  string
	Key []byte
}
type recStore struct {
	corestore.KVStore
	s *recService
}

func (r recService) OpenKVStore(ctx context.Context) corestore.KVStore {
	return recStore{KVStore: r.inner.OpenKVStore(ctx), s: &r}
}
func (r recStore) Set(key, value []byte) error {
	if *r.s.on {
		*r.s.rec = append(*r.s.rec, WriteRec{"set", append([]byte{}, key...)})
	}
	return r.KVStore.Set(key, value)
}
func (r recStore) Delete(key []byte) error {
	if *r.s.on {
		*r.s.rec = append(*r.s.rec, WriteRec{"del", append([]byte{}, key...)})
	}
	return r.KVStore.Delete(key)
}

// ---- instance ----------------------------------------------------------------------------

type Instance struct {
	T       *SymTab
	C       *Codec
	ms      storetypes.CommitMultiStore
	cctpKey *storetypes.KVStoreKey
	ledKey  *storetypes.KVStoreKey
	K       *keeper.Keeper
	L       *Ledger
	ctx     sdk.Context
	msr     *baseapp.MsgServiceRouter
	reg     codectypes.InterfaceRegistry
	cdc     *codec.ProtoCodec
	writes  []WriteRec
	recOn   bool
	height  int64
	iavl    bool
	qn      uint64
	notes   []string
	discard bool // simulate: never write the branch back
	Mod     cctp.AppModule
	gqr     *baseapp.GRPCQueryRouter
}

// wire registers the module's services the way an application does: through AppModule.RegisterServices on a
// configurator over a real message router and a real gRPC query router.
func (in *Instance) wire() {
	in.msr = baseapp.NewMsgServiceRouter()
	in.msr.SetInterfaceRegistry(in.reg)
	in.gqr = baseapp.NewGRPCQueryRouter()
	in.gqr.SetInterfaceRegistry(in.reg)
	in.Mod = cctp.NewAppModule(in.K)
	in.Mod.RegisterServices(module.NewConfigurator(in.cdc, in.msr, in.gqr))
}

// genesisJSON: the module-level JSON form of a genesis state, when JSON carries it faithfully (hostile
// in-memory values such as nil amounts have no JSON form; those cases use the package-level functions).
func (in *Instance) genesisJSON(gs *types.GenesisState) (bz []byte, ok bool) {
	defer func() {
		if r := recover(); r != nil {
			bz, ok = nil, false
		}
	}()
	b1, err := gs.Marshal()
	if err != nil {
		return nil, false
	}
	js := in.cdc.MustMarshalJSON(gs)
	var back types.GenesisState
	in.cdc.MustUnmarshalJSON(js, &back)
	b2, err := back.Marshal()
	if err != nil || string(b1) != string(b2) {
		return nil, false
	}
	return js, true
}

// InitGenesisReal initialises through AppModule.InitGenesis (JSON) when possible, else through cctp.InitGenesis.
func (in *Instance) InitGenesisReal(gs types.GenesisState) {
	if js, ok := in.genesisJSON(&gs); ok {
		in.Mod.InitGenesis(in.ctx, in.cdc, js)
		return
	}
	cctp.InitGenesis(in.ctx, in.K, gs)
}

// ExportGenesisReal exports through AppModule.ExportGenesis (JSON) and decodes the result.
func (in *Instance) ExportGenesisReal() *types.GenesisState {
	js := in.Mod.ExportGenesis(in.ctx, in.cdc)
	var out types.GenesisState
	in.cdc.MustUnmarshalJSON(js, &out)
	return &out
}

var sharedReg codectypes.InterfaceRegistry

func NewInstance(t *SymTab, iavl bool) *Instance {
	in := &Instance{T: t, C: NewCodec(t), iavl: iavl}
	in.cctpKey = storetypes.NewKVStoreKey(types.StoreKey)
	in.ledKey = storetypes.NewKVStoreKey("ledger")
	logger := log.NewNopLogger()
	in.ms = store.NewCommitMultiStore(db.NewMemDB(), logger, metrics.NewNoOpMetrics())
	typ := storetypes.StoreTypeDB
	if iavl {
		typ = storetypes.StoreTypeIAVL
	}
	in.ms.MountStoreWithDB(in.cctpKey, typ, nil)
	in.ms.MountStoreWithDB(in.ledKey, typ, nil)
	if err := in.ms.LoadLatestVersion(); err != nil {
		panic(err)
	}
	in.reg = codectypes.NewInterfaceRegistry()
	types.RegisterInterfaces(in.reg)
	in.cdc = codec.NewProtoCodec(in.reg)
	in.L = &Ledger{key: in.ledKey, mintDenom: t.MintDenom, cctpKey: in.cctpKey}
	svc := recService{inner: runtime.NewKVStoreService(in.cctpKey), rec: &in.writes, on: &in.recOn}
	in.K = keeper.NewKeeper(in.cdc, logger, svc, in.L, in.L)
	in.wire()
	in.ctx = sdk.NewContext(in.ms, cmtproto.Header{Height: 1}, false, logger)
	in.height = 1
	return in
}

// Commit commits the multistore (a block) and returns the app hash.
func (in *Instance) Commit() []byte {
	id := in.ms.Commit()
	in.height++
	in.ctx = sdk.NewContext(in.ms, cmtproto.Header{Height: in.height}, false, log.NewNopLogger())
	return id.Hash
}

// RawDump returns the cctp store as sorted (key,value) pairs.
func (in *Instance) RawDump() [][2][]byte {
	st := in.ctx.KVStore(in.cctpKey)
	it := st.Iterator(nil, nil)
	defer it.Close()
	var out [][2][]byte
	for ; it.Valid(); it.Next() {
		out = append(out, [2][]byte{append([]byte{}, it.Key()...), append([]byte{}, it.Value()...)})
	}
	return out
}

func (in *Instance) LedgerDump() map[string]*big.Int {
	st := in.ctx.KVStore(in.ledKey)
	it := st.Iterator(nil, nil)
	defer it.Close()
	out := map[string]*big.Int{}
	for ; it.Valid(); it.Next() {
		v, _ := new(big.Int).SetString(string(it.Value()), 10)
		out[string(it.Key())] = v
	}
	return out
}

type TxResult struct {
	Res    string // ok | err | panic
	Err    string
	Resp   proto.Message
	RespBz []byte
	Events []sdk.Event
	Calls  []LedgerCall
	Writes []WriteRec
	Panic  string
}

// RunTx executes one message the way baseapp.runMsgs would: decode from wire bytes into a fresh
// value, branch the multistore, route through the MsgServiceRouter, write back only on success.
func (in *Instance) RunTx(typeURL string, wire []byte, faults []bool) (out TxResult) {
	in.L.faults, in.L.ncall, in.L.calls = faults, 0, nil
	in.L.panicFaults, in.L.panicked = panicFaults, false
	in.writes = nil
	msgI, err := in.reg.Resolve(typeURL)
	if err != nil {
		panic(fmt.Sprintf("harness: cannot resolve %s: %v", typeURL, err))
	}
	if err := in.cdc.Unmarshal(wire, msgI); err != nil {
		return TxResult{Res: "err", Err: "undecodable: " + err.Error()}
	}
	msg := msgI.(sdk.Msg)
	handler := in.msr.Handler(msg)
	if handler == nil {
		panic("harness: no handler for " + typeURL)
	}
	cacheCtx, write := in.ctx.CacheContext()
	in.recOn = true
	defer func() {
		in.recOn = false
		out.Calls = in.L.calls
		out.Writes = in.writes
		if r := recover(); r != nil {
			if _, injected := r.(ledgerPanic); injected {
				// the dependency panicked on purpose: the application's recovery makes this a failed transaction
				out.Res, out.Err = "err", "dependency panicked (injected)"
			} else {
				out.Res, out.Panic = "panic", fmt.Sprint(r)
			}
		}
	}()
	res, err := handler(cacheCtx, msg)
	if err != nil {
		out.Res, out.Err = "err", err.Error()
		return
	}
	if !in.discard {
		write()
	}
	out.Res = "ok"
	out.Events = res.GetEvents()
	if len(res.MsgResponses) == 1 {
		var pm proto.Message
		if e := in.reg.UnpackAny(res.MsgResponses[0], &pm); e == nil {
			out.Resp = pm
		} else {
			// response types are not registered as interface implementations: decode by type URL
			out.RespBz = res.MsgResponses[0].Value
		}
		out.RespBz = res.MsgResponses[0].Value
	}
	return
}

// RunBatch executes several messages as ONE transaction: one branch, in order, written back only if all succeed.
func (in *Instance) RunBatch(txs [][2]any, faults []bool) (out TxResult, inner []TxResult) {
	in.L.faults, in.L.ncall, in.L.calls = faults, 0, nil
	in.L.panicFaults, in.L.panicked = panicFaults, false
	in.writes = nil
	cacheCtx, write := in.ctx.CacheContext()
	in.recOn = true
	defer func() {
		in.recOn = false
		out.Calls = in.L.calls
		out.Writes = in.writes
		if r := recover(); r != nil {
			if _, injected := r.(ledgerPanic); injected {
				out.Res, out.Err = "err", "dependency panicked (injected)"
			} else {
				out.Res, out.Panic = "panic", fmt.Sprint(r)
			}
			out.Events = nil
		}
	}()
	out.Res = "ok"
	for _, tx := range txs {
		typeURL, wire := tx[0].(string), tx[1].([]byte)
		msgI, err := in.reg.Resolve(typeURL)
		if err != nil {
			panic(fmt.Sprintf("harness: cannot resolve %s: %v", typeURL, err))
		}
		one := TxResult{Res: "ok"}
		ncalls := len(in.L.calls)
		if err := in.cdc.Unmarshal(wire, msgI); err != nil {
			one.Res, one.Err = "err", "undecodable: "+err.Error()
		} else {
			msg := msgI.(sdk.Msg)
			res, err := in.msr.Handler(msg)(cacheCtx, msg)
			if err != nil {
				one.Res, one.Err = "err", err.Error()
			} else {
				one.Events = res.GetEvents()
				if len(res.MsgResponses) == 1 {
					one.RespBz = res.MsgResponses[0].Value
				}
			}
		}
		one.Calls = append([]LedgerCall{}, in.L.calls[ncalls:]...)
		inner = append(inner, one)
		if one.Res != "ok" {
			out.Res, out.Err = "err", one.Err
			out.Events = nil
			return
		}
		out.Events = append(out.Events, one.Events...)
	}
	if !in.discard {
		write()
	}
	return
}

// ---- materialising an abstract state -----------------------------------------------------

func seti(v any) int {
	switch x := v.(type) {
	case float64:
		return int(x)
	case int:
		return x
	}
	panic(fmt.Sprintf("not an int: %v", v))
}

func arr(m M, k string) []any {
	if v, ok := m[k].([]any); ok {
		return v
	}
	if m[k] == nil {
		return nil
	}
	panic("not an array: " + k)
}

// GenesisFromState builds the concrete genesis that represents abstract state s.
func (in *Instance) GenesisFromState(s M) types.GenesisState {
	t := in.T
	gs := types.GenesisState{
		Owner: t.AddrString(gets(s, "owner")), AttesterManager: t.AddrString(gets(s, "attMgr")),
		Pauser: t.AddrString(gets(s, "pauser")), TokenController: t.AddrString(gets(s, "tokCtl")),
		BurningAndMintingPaused:           &types.BurningAndMintingPaused{Paused: s["pausedBM"].(bool)},
		SendingAndReceivingMessagesPaused: &types.SendingAndReceivingMessagesPaused{Paused: s["pausedSR"].(bool)},
		MaxMessageBodySize:                &types.MaxMessageBodySize{Amount: SizeVal(geti(s, "maxBody"))},
		NextAvailableNonce:                &types.Nonce{Nonce: t.Nonce(geti(s, "nextNonce"))},
		SignatureThreshold:                &types.SignatureThreshold{Amount: ThresholdVal(geti(s, "threshold"))},
	}
	for _, a := range arr(s, "attesters") {
		am := a.(map[string]any)
		gs.AttesterList = append(gs.AttesterList, types.Attester{Attester: t.AttesterString(gets(am, "key"), gets(am, "sp"))})
	}
	for _, a := range arr(s, "limits") {
		am := a.(map[string]any)
		gs.PerMessageBurnLimitList = append(gs.PerMessageBurnLimitList, types.PerMessageBurnLimit{
			Denom: t.Denom(gets(am, "denom")), Amount: sdkmath.NewIntFromBigInt(t.Amount(geti(am, "amt")))})
	}
	for _, a := range arr(s, "pairs") {
		am := a.(map[string]any)
		gs.TokenPairList = append(gs.TokenPairList, types.TokenPair{RemoteDomain: t.Dom(gets(am, "d")),
			RemoteToken: t.Bytes(getb(am, "t")), LocalToken: t.Denom(gets(am, "denom"))})
	}
	for _, a := range arr(s, "used") {
		am := a.(map[string]any)
		gs.UsedNoncesList = append(gs.UsedNoncesList, types.Nonce{SourceDomain: t.Dom(gets(am, "d")), Nonce: t.Nonce(geti(am, "n"))})
	}
	for _, a := range arr(s, "msgrs") {
		am := a.(map[string]any)
		gs.TokenMessengerList = append(gs.TokenMessengerList, types.RemoteTokenMessenger{DomainId: t.Dom(gets(am, "d")),
			Address: t.Bytes(getb(am, "addr"))})
	}
	return gs
}

// Materialise puts the instance into abstract state s using the real InitGenesis (plus the real
// SetPendingOwner, the one slot genesis cannot carry) and seeds the ledger double.
func (in *Instance) Materialise(s M) {
	gs := in.GenesisFromState(s)
	in.InitGenesisReal(gs)
	if p := gets(s, "pending"); p != "none" {
		in.K.SetPendingOwner(in.ctx, in.T.AddrString(p))
	}
	st := in.ctx.KVStore(in.ledKey)
	bal := getm(s, "bal")
	for _, sym := range sortedKeys(bal) { // deterministic write order: the IAVL root depends on it
		adr := in.T.Addr20(sym)
		if full, ok := in.T.fullAddr[sym]; ok {
			adr = full // the ledger knows an account by its full address
		}
		setBig(st, balKey(adr, in.T.MintDenom), in.T.Amount(seti(bal[sym])))
	}
	setBig(st, supKey(in.T.MintDenom), in.T.Amount(geti(s, "supply")))
}

func sortedKeys[V any](m map[string]V) []string {
	ks := make([]string, 0, len(m))
	for k := range m {
		ks = append(ks, k)
	}
	sort.Strings(ks)
	return ks
}

// RestartKeeper re-creates the keeper, message server and router over the SAME stores, as a node restart
// (or another validator holding the same committed state) would: nothing kept in memory survives.
func (in *Instance) RestartKeeper() {
	logger := log.NewNopLogger()
	svc := recService{inner: runtime.NewKVStoreService(in.cctpKey), rec: &in.writes, on: &in.recOn}
	in.K = keeper.NewKeeper(in.cdc, logger, svc, in.L, in.L)
	in.wire()
}

// Reset gives the instance a fresh, empty multistore (keeper, router and codec are reused).
func (in *Instance) Reset() {
	logger := log.NewNopLogger()
	in.ms = store.NewCommitMultiStore(db.NewMemDB(), logger, metrics.NewNoOpMetrics())
	typ := storetypes.StoreTypeDB
	if in.iavl {
		typ = storetypes.StoreTypeIAVL
	}
	in.ms.MountStoreWithDB(in.cctpKey, typ, nil)
	in.ms.MountStoreWithDB(in.ledKey, typ, nil)
	if err := in.ms.LoadLatestVersion(); err != nil {
		panic(err)
	}
	in.height = 1
	in.ctx = sdk.NewContext(in.ms, cmtproto.Header{Height: 1}, false, logger)
	in.C = NewCodec(in.T)
}

// DirectVerify calls the exported attestation verifier on the message's own bytes with the attester
// list and threshold of the abstract pre-state (C01's first observation point).
func (in *Instance) DirectVerify(pre M, msg M) (res string) {
	var wireKey string
	switch gets(msg, "type") {
	case "ReceiveMessage":
		wireKey = "wire"
	case "ReplaceMessage", "ReplaceDepositForBurn":
		wireKey = "orig"
	default:
		return "na"
	}
	wire := in.C.WireBytes(getm(msg, wireKey))
	att := in.T.Attestation(attOf(getm(msg, "att")), wire)
	var list []types.Attester
	for _, a := range arr(pre, "attesters") {
		am := a.(map[string]any)
		list = append(list, types.Attester{Attester: in.T.AttesterString(gets(am, "key"), gets(am, "sp"))})
	}
	defer func() {
		if r := recover(); r != nil {
			res = "panic"
		}
	}()
	if err := keeper.VerifyAttestationSignatures(append([]byte{}, wire...), append([]byte{}, att...), list, ThresholdVal(geti(pre, "threshold"))); err != nil {
		return "err"
	}
	return "ok"
}
