package main

// Seeded bijective symbol table: abstract symbols of the TLA+ specification <-> concrete values.
// Nothing here calls x/cctp code; addresses use the SDK's bech32, hashes use x/crypto's keccak.

import (
	"bytes"
	"crypto/ecdsa"
	"crypto/sha256"
	"encoding/binary"
	"encoding/hex"
	"fmt"
	"math/big"
	"sort"
	"strings"
	"sync"

	"github.com/cosmos/cosmos-sdk/types/bech32"
	ethcrypto "github.com/ethereum/go-ethereum/crypto"
	"golang.org/x/crypto/sha3"
)

// B32 is the abstract byte-string record [n, hi, lo] of the specification.
type B32 struct {
	N  int    `json:"n"`
	Hi string `json:"hi"`
	Lo string `json:"lo"`
}

type AttKey struct {
	Name string
	Priv *ecdsa.PrivateKey
	Pub  []byte // 65-byte uncompressed
	Addr []byte // 20-byte eth address
}

type SymTab struct {
	Seed      int64
	Prefix    string
	ModuleAdr []byte
	MintDenom string
	Unit      *big.Int
	NonceBase uint64
	Junk12    []byte

	fullAddr  map[string][]byte // symbols whose address is not 20 bytes long: the full payload
	addr      map[string][]byte // address symbol -> 20 bytes
	addrRev   map[string]string // hex(20 bytes) -> symbol
	addrStr   map[string]string // symbol -> bech32
	strRev    map[string]string // bech32 -> symbol
	dom       map[string]uint32
	domRev    map[uint32]string
	denom     map[string]string
	denomRev  map[string]string
	keys      []AttKey // sorted by eth address: k1..k8
	keyByName map[string]*AttKey
	attRev    map[string][2]string // attester string -> (key, spelling)
	k32Rev    map[string]string    // hex(keccak(denom string)) -> denom symbol
	pairRev   map[string]M
	pairOnce  sync.Once
}

func (t *SymTab) buildPairRev() map[string]M {
	t.pairOnce.Do(func() {
		m := map[string]M{}
		var toks []B32
		for _, lo := range append(append([]string{}, addrSymbols...), "zero", "MODULE") {
			toks = append(toks, B32{32, "z", lo}, B32{32, "j", lo})
		}
		for d := range t.denom {
			toks = append(toks, B32{32, "k", d})
		}
		for ds, dv := range t.dom {
			var db [4]byte
			binary.BigEndian.PutUint32(db[:], dv)
			for _, tk := range toks {
				m[hex.EncodeToString(keccak(db[:], t.Bytes(tk)))] = M{"d": ds, "t": b32m(tk)}
			}
		}
		t.pairRev = m
	})
	return t.pairRev
}

func keccak(bz ...[]byte) []byte {
	h := sha3.NewLegacyKeccak256()
	for _, b := range bz {
		h.Write(b)
	}
	return h.Sum(nil)
}

// prf returns n deterministic pseudo-random bytes for (seed, label).
func prf(seed int64, label string, n int) []byte {
	out := make([]byte, 0, n+32)
	var ctr uint32
	for len(out) < n {
		h := sha256.New()
		var s [12]byte
		binary.BigEndian.PutUint64(s[:8], uint64(seed))
		binary.BigEndian.PutUint32(s[8:], ctr)
		h.Write(s[:])
		h.Write([]byte(label))
		out = append(out, h.Sum(nil)...)
		ctr++
	}
	return out[:n]
}

var addrSymbols = []string{"a1", "a2", "a3", "a4", "a5", "a6", "a7", "a8", "x1", "x2",
	"t1", "t2", "t3", "m1", "m2", "m3", "r1", "r2", "r3", "junk"}

var domSymbols = []string{"d1", "d2", "d3", "d4", "d5"}

// MixedCaseMint selects the configuration in which the chain's minting denom is mixed-case ("uUSDC").
var MixedCaseMint bool

func NewSymTab(seed int64, moduleAddr []byte, prefix string) *SymTab {
	t := &SymTab{Seed: seed, Prefix: prefix, ModuleAdr: moduleAddr,
		fullAddr: map[string][]byte{}, addr: map[string][]byte{}, addrRev: map[string]string{}, addrStr: map[string]string{}, strRev: map[string]string{},
		dom: map[string]uint32{}, domRev: map[uint32]string{}, denom: map[string]string{}, denomRev: map[string]string{},
		keyByName: map[string]*AttKey{}, attRev: map[string][2]string{}, k32Rev: map[string]string{}}
	t.MintDenom = "uusdc"
	if MixedCaseMint {
		t.MintDenom = "uUSDC"
	}
	// unit of account: abstract amount i stands for i*Unit
	// odd seeds (incl. the default) use a unit above 2^64 so that any 64-bit truncation of an amount is visible
	switch ((seed % 4) + 4) % 4 {
	case 0:
		t.Unit = big.NewInt(1)
	case 1, 3:
		t.Unit = new(big.Int).Add(new(big.Int).Lsh(big.NewInt(1), 64), big.NewInt(1))
	case 2:
		t.Unit = new(big.Int).Div(new(big.Int).Sub(new(big.Int).Lsh(big.NewInt(1), 256), big.NewInt(1)), big.NewInt(16))
	}
	if seed%10 == 0 && seed != 0 {
		t.Unit = big.NewInt(7)
	}
	// nonce base: real chains start at 0 (odd seeds, incl. the default); even seeds use a large random base
	// or one that straddles 2^32
	switch {
	case seed%2 != 0:
		t.NonceBase = 0
	default:
		t.NonceBase = binary.BigEndian.Uint64(prf(seed, "noncebase", 8)) >> 2
	}
	t.Junk12 = prf(seed, "junk12", 12)
	t.Junk12[0] |= 1
	reg := func(sym string, bz []byte) {
		t.addr[sym] = bz
		t.addrRev[hex.EncodeToString(bz)] = sym
		s, err := bech32.ConvertAndEncode(prefix, bz)
		if err != nil {
			panic(err)
		}
		t.addrStr[sym] = s
		t.strRev[s] = sym
	}
	for _, s := range addrSymbols {
		b := prf(seed, "addr:"+s, 20)
		b[0] |= 1
		switch s { // ordinary addresses that happen to start with zero bytes (about 1 in 256 does)
		case "a8":
			b[0] = 0
		case "x2":
			b[0], b[1], b[2] = 0, 0, 0
		}
		reg(s, b)
	}
	reg("zero", make([]byte, 20))
	reg("MODULE", moduleAddr)
	// valid bech32 addresses that are not 20 bytes long: as a string they spell their full payload, padded into a
	// 32-byte field they are what copy(dst[12:], addr) makes of them
	regOdd := func(sym string, full []byte) {
		semantic := make([]byte, 20)
		copy(semantic, full)
		t.addr[sym] = semantic
		t.addrRev[hex.EncodeToString(semantic)] = sym
		str, err := bech32.ConvertAndEncode(prefix, full)
		if err != nil {
			panic(err)
		}
		t.addrStr[sym] = str
		t.strRev[str] = sym
		t.fullAddr[sym] = full
	}
	s8 := prf(seed, "addr:s8", 8)
	s8[0] |= 1
	regOdd("s8", s8)
	l33 := prf(seed, "addr:l33", 33)
	l33[0] |= 1
	regOdd("l33", l33)
	// "p1": 32 bytes, the first 20 of which are a1's (no reverse entry for the 20-byte form: that is a1)
	p1 := append(append([]byte{}, t.addr["a1"]...), prf(seed, "addr:p1", 12)...)
	p1str, err := bech32.ConvertAndEncode(prefix, p1)
	if err != nil {
		panic(err)
	}
	t.addr["p1"], t.addrStr["p1"], t.strRev[p1str], t.fullAddr["p1"] = t.addr["a1"], p1str, "p1", p1
	t.dom["NOBLE"] = 4
	t.domRev[4] = "NOBLE"
	for i, s := range domSymbols {
		v := binary.BigEndian.Uint32(prf(seed, "dom:"+s, 4))
		switch i {
		case 0:
			v = 0 // Ethereum's CCTP domain is 0: zero-valued fields are a realistic corner (proto3 omits them)
		case 2:
			v = 0x2f2f002f // bytes that look like the key separator '/'
		case 3:
			v = 0xFFFFFFFF // the largest domain: its store key starts with 0xFF
		case 4:
			v = 0xFF000001
		}
		if seed%3 == 2 { // adversarial family: share byte patterns, contain '/', differ only in high bytes
			v = []uint32{0x2f2f2f2f, 0x2f2f2f00, 0x002f2f2f, 0x01000004, 0x04000000}[i]
		}
		for v == 4 || t.domRev[v] != "" {
			v++
		}
		t.dom[s] = v
		t.domRev[v] = s
	}
	for _, e := range [][2]string{{"MINT_LOW", strings.ToLower(t.MintDenom)}, {"MINT", t.MintDenom}, {"MINT_UP", strings.ToUpper(t.MintDenom)},
		{"MINT_FOLD", strings.Replace(strings.Replace(t.MintDenom, "s", "ſ", 1), "S", "ſ", 1)}, {"OTHER", "uatom"}, {"OTHER_UP", "UATOM"}, {"EMPTY", ""}} {
		sym, str := e[0], e[1]
		t.denom[sym] = str
		t.denomRev[str] = sym // (with a lower-case minting denom MINT_LOW and MINT are one string: it reads back as MINT)
		t.k32Rev[hex.EncodeToString(keccak([]byte(str)))] = sym
	}
	// attester keys, sorted by Ethereum address
	for i := 0; i < 8; i++ {
		var priv *ecdsa.PrivateKey
		for c := 0; ; c++ {
			d := prf(seed, fmt.Sprintf("attkey:%d:%d", i, c), 32)
			p, err := ethcrypto.ToECDSA(d)
			if err == nil {
				priv = p
				break
			}
		}
		pub := ethcrypto.FromECDSAPub(&priv.PublicKey)
		t.keys = append(t.keys, AttKey{Priv: priv, Pub: pub, Addr: ethcrypto.PubkeyToAddress(priv.PublicKey).Bytes()})
	}
	sort.Slice(t.keys, func(i, j int) bool { return bytes.Compare(t.keys[i].Addr, t.keys[j].Addr) < 0 })
	for i := range t.keys {
		t.keys[i].Name = fmt.Sprintf("k%d", i+1)
		t.keyByName[t.keys[i].Name] = &t.keys[i]
		for _, sp := range []string{"hex", "0x", "UP", "0X", "odd", "0xodd"} {
			t.attRev[t.AttesterString(t.keys[i].Name, sp)] = [2]string{t.keys[i].Name, sp}
		}
	}
	for _, j := range []string{"junk1", "junk2"} {
		t.attRev[t.AttesterString(j, "hex")] = [2]string{j, "hex"}
	}
	t.attRev[""] = [2]string{"none", "empty"}
	t.attRev["0x"] = [2]string{"none", "0xonly"}
	t.attRev["zz"] = [2]string{"none", "nothex"}
	return t
}

// ---- addresses ---------------------------------------------------------------------------

// AddrString concretises the abstract address-string symbol (a valid account or a malformed class).
func (t *SymTab) AddrString(sym string) string {
	if s, ok := t.addrStr[sym]; ok {
		return s
	}
	switch sym {
	case "EMPTY":
		return ""
	case "GARBAGE":
		return "not-an-address"
	case "WRONG_PREFIX":
		s, _ := bech32.ConvertAndEncode("other", t.addr["a1"])
		return s
	case "BAD_CHECKSUM":
		s := t.addrStr["a1"]
		c := byte('q')
		if s[len(s)-1] == 'q' {
			c = 'p'
		}
		return s[:len(s)-1] + string(c)
	case "NON_ASCII":
		return "noblé" + "1xyz"
	case "EMPTY_PAYLOAD": // well-formed bech32 (prefix, checksum) around zero bytes: not an address
		s, _ := bech32.ConvertAndEncode(t.Prefix, []byte{})
		return s
	case "LONG_PAYLOAD": // well-formed bech32 around 256 bytes: longer than any address may be
		s, _ := bech32.ConvertAndEncode(t.Prefix, prf(t.Seed, "longpayload", 256))
		return s
	case "none":
		return ""
	}
	if strings.HasPrefix(sym, "UPPER_") {
		return strings.ToUpper(t.addrStr[strings.TrimPrefix(sym, "UPPER_")])
	}
	panic("unknown address symbol " + sym)
}

func (t *SymTab) AddrSym(s string) string {
	if sym, ok := t.strRev[s]; ok {
		return sym
	}
	for _, c := range []string{"EMPTY", "GARBAGE", "WRONG_PREFIX", "BAD_CHECKSUM", "NON_ASCII", "EMPTY_PAYLOAD", "LONG_PAYLOAD"} {
		if t.AddrString(c) == s {
			return c
		}
	}
	return "?" + s
}

func (t *SymTab) Addr20(sym string) []byte {
	if b, ok := t.addr[sym]; ok {
		return b
	}
	if strings.HasPrefix(sym, "?") { // a value observed from the code that has no symbol: it spells its own bytes
		if b, err := hex.DecodeString(sym[1:]); err == nil {
			return b
		}
	}
	panic("unknown 20-byte symbol " + sym)
}

func (t *SymTab) Addr20Sym(b []byte) string {
	if s, ok := t.addrRev[hex.EncodeToString(b)]; ok {
		return s
	}
	return "?" + hex.EncodeToString(b)
}

// ---- byte strings ------------------------------------------------------------------------

func (t *SymTab) Bytes(b B32) []byte {
	if b.N != 32 {
		if strings.HasPrefix(b.Lo, "?") {
			if hb, err := hex.DecodeString(b.Lo[1:]); err == nil {
				return hb
			}
		}
		out := make([]byte, b.N)
		if b.Lo != "zero" {
			copy(out, prf(t.Seed, fmt.Sprintf("bytes:%d", b.N), b.N))
			for i := range out {
				out[i] |= 1
			}
		}
		return out
	}
	if b.Hi == "k" {
		return keccak([]byte(t.Denom(b.Lo)))
	}
	out := make([]byte, 32)
	if b.Hi == "j" {
		copy(out[:12], t.Junk12)
	} else if strings.HasPrefix(b.Hi, "?") {
		if hb, err := hex.DecodeString(b.Hi[1:]); err == nil {
			copy(out[:12], hb)
		}
	}
	copy(out[12:], t.Addr20(b.Lo))
	return out
}

func (t *SymTab) BytesSym(bz []byte) B32 {
	n := len(bz)
	if n != 32 {
		allz := true
		for _, c := range bz {
			if c != 0 {
				allz = false
			}
		}
		if allz {
			return B32{N: n, Hi: "-", Lo: "zero"}
		}
		if bytes.Equal(bz, t.Bytes(B32{N: n, Hi: "-", Lo: "junk"})) {
			return B32{N: n, Hi: "-", Lo: "junk"}
		}
		return B32{N: n, Hi: "-", Lo: "?" + hex.EncodeToString(bz)}
	}
	if d, ok := t.k32Rev[hex.EncodeToString(bz)]; ok {
		return B32{N: 32, Hi: "k", Lo: d}
	}
	hi := "?" + hex.EncodeToString(bz[:12])
	if bytes.Equal(bz[:12], make([]byte, 12)) {
		hi = "z"
	} else if bytes.Equal(bz[:12], t.Junk12) {
		hi = "j"
	}
	return B32{N: 32, Hi: hi, Lo: t.Addr20Sym(bz[12:])}
}

// ---- domains, nonces, amounts, denoms ----------------------------------------------------

func (t *SymTab) Dom(sym string) uint32 {
	if v, ok := t.dom[sym]; ok {
		return v
	}
	if strings.HasPrefix(sym, "?") {
		var v uint32
		if _, err := fmt.Sscanf(sym[1:], "%d", &v); err == nil {
			return v
		}
	}
	panic("unknown domain symbol " + sym)
}
func (t *SymTab) DomSym(v uint32) string {
	if s, ok := t.domRev[v]; ok {
		return s
	}
	return fmt.Sprintf("?%d", v)
}

// Nonces: abstract nonce i stands for base+i, piecewise: 0..999 plain, 1000..1999 shifted by 2^33,
// 2000..2999 shifted by 2^63 -- so that keys which agree after a truncation to 32 or 63 bits are DIFFERENT
// abstract nonces -- and 3000..3999 is the absolute range 2^32-500 .. 2^32+499, contiguous across the 32-bit
// boundary (for counters).  TLC's integers are 32-bit; the concrete values never enter the specification.
func (t *SymTab) Nonce(i int) uint64 {
	switch {
	case i >= 3000 && i < 4000: // absolute, contiguous across 2^32: 3500 is 2^32
		return (1 << 32) - 500 + uint64(i-3000)
	case i >= 2000 && i < 3000:
		return t.NonceBase + (1 << 63) + uint64(i-2000)
	case i >= 1000 && i < 2000: // same low 32 bits as i-1000
		return t.NonceBase + (1 << 33) + uint64(i-1000)
	}
	return t.NonceBase + uint64(int64(i))
}
func (t *SymTab) NonceSym(v uint64) int {
	d := v - t.NonceBase
	switch {
	case d < 1000:
		return int(d)
	case v-((1<<32)-500) < 1000 && t.NonceBase != 0 || (t.NonceBase == 0 && v >= (1<<32)-500 && v < (1<<32)+500):
		return 3000 + int(v-((1<<32)-500))
	case d-(1<<33) < 1000:
		return 1000 + int(d-(1<<33))
	case d-(1<<63) < 1000:
		return 2000 + int(d-(1<<63))
	case d < 1_000_000:
		return int(d)
	}
	return -777
}

const AbsentAmt = -1000

// Amount: abstract i -> i*Unit (negative abstract values stay small negatives)
func (t *SymTab) Amount(i int) *big.Int {
	if i < 0 {
		return big.NewInt(int64(i))
	}
	return new(big.Int).Mul(big.NewInt(int64(i)), t.Unit)
}
func (t *SymTab) AmountSym(v *big.Int) int {
	if v == nil {
		return AbsentAmt
	}
	if v.Sign() < 0 {
		if v.IsInt64() && v.Int64() > -1000 {
			return int(v.Int64())
		}
		return -778
	}
	q, r := new(big.Int).QuoRem(v, t.Unit, new(big.Int))
	if r.Sign() != 0 || !q.IsInt64() || q.Int64() > 1_000_000 {
		return -777
	}
	return int(q.Int64())
}
func (t *SymTab) Denom(sym string) string {
	if s, ok := t.denom[sym]; ok {
		return s
	}
	if strings.HasPrefix(sym, "?") {
		return sym[1:]
	}
	panic("unknown denom symbol " + sym)
}
func (t *SymTab) DenomSym(s string) string {
	if d, ok := t.denomRev[s]; ok {
		return d
	}
	return "?" + s
}

// ---- attesters and signatures ------------------------------------------------------------

type AttEntry struct {
	Key string `json:"key"`
	Sp  string `json:"sp"`
}

func (t *SymTab) AttesterString(key, sp string) string {
	var h string
	if k, ok := t.keyByName[key]; ok {
		h = hex.EncodeToString(k.Pub)
	} else {
		switch key {
		case "junk1":
			h = "abcd"
		case "junk2":
			h = "0123456789"
		case "none":
			switch sp {
			case "empty":
				return ""
			case "0xonly":
				return "0x"
			case "nothex":
				return "zz"
			}
		default:
			panic("unknown attester key " + key)
		}
	}
	switch sp {
	case "odd": // odd-length hex: the leading zero nibble dropped (the decoder pads it back)
		return strings.TrimPrefix(h, "0")
	case "0xodd":
		return "0x" + strings.TrimPrefix(h, "0")
	case "hex":
		return h
	case "0x":
		return "0x" + h
	case "0X":
		return "0X" + h
	case "UP":
		return strings.ToUpper(h)
	}
	panic("unknown spelling " + sp)
}

func (t *SymTab) AttesterSym(s string) AttEntry {
	if e, ok := t.attRev[s]; ok {
		return AttEntry{Key: e[0], Sp: e[1]}
	}
	return AttEntry{Key: "?" + s, Sp: "?"}
}

type Sig struct {
	K    string `json:"k"`
	Over string `json:"over"`
	Enc  string `json:"enc"`
}
type Att struct {
	Sigs []Sig `json:"sigs"`
	Pad  int   `json:"pad"`
}

var secpN, _ = new(big.Int).SetString("fffffffffffffffffffffffffffffffebaaedce6af48a03bbfd25e8cd0364141", 16)

func (t *SymTab) Attestation(a Att, message []byte) []byte {
	var out []byte
	for _, sg := range a.Sigs {
		digest := keccak(message)
		if sg.Over != "this" {
			digest = keccak(message, []byte{0xff, 0x01})
		}
		k, ok := t.keyByName[sg.K]
		if !ok {
			panic("unknown signer " + sg.K)
		}
		sig, err := ethcrypto.Sign(digest, k.Priv)
		if err != nil {
			panic(err)
		}
		switch sg.Enc {
		case "v01":
		case "v2728":
			sig[64] += 27
		case "hs01", "hs2728":
			s := new(big.Int).SetBytes(sig[32:64])
			s.Sub(secpN, s)
			s.FillBytes(sig[32:64])
			sig[64] ^= 1
			if sg.Enc == "hs2728" {
				sig[64] += 27
			}
		case "badv":
			sig[64] = 29
		case "zero":
			sig = make([]byte, 65)
		default:
			panic("unknown sig encoding " + sg.Enc)
		}
		out = append(out, sig...)
	}
	switch {
	case a.Pad < 0:
		if len(out) >= -a.Pad {
			out = out[:len(out)+a.Pad]
		}
	case a.Pad > 0:
		out = append(out, prf(t.Seed, "pad", a.Pad)...)
	}
	return out
}

// RawBody returns the opaque body bytes for (id, len).
func (t *SymTab) RawBody(id, n int) []byte {
	return prf(t.Seed, fmt.Sprintf("body:%d:%d", id, n), n)
}

// Threshold values: small abstract numbers are themselves; 1000000+k stands for 2^31+k and 2000000-k for 2^32-1-k
// (the specification compares a threshold only with set sizes; the code's uint32 arithmetic has its own corners).
func ThresholdVal(a int) uint32 {
	switch {
	case a >= 1_500_000:
		return uint32(0xFFFFFFFF - uint64(2_000_000-a))
	case a >= 1_000_000:
		return uint32(1<<31 + uint64(a-1_000_000))
	}
	return uint32(a)
}

func ThresholdSym(v uint32) int {
	switch {
	case v >= 0xFFFFFFFF-1000:
		return 2_000_000 - int(0xFFFFFFFF-v)
	case v >= 1<<31 && v < 1<<31+1000:
		return 1_000_000 + int(v-1<<31)
	}
	return int(v)
}

// Body-size limits: 3000000+k stands for 2^32+k (a limit no body reaches; truncated to 32 bits it would be k).
func SizeVal(a int) uint64 {
	if a >= 3_000_000 {
		return 1<<32 + uint64(a-3_000_000)
	}
	return uint64(a)
}

func SizeSym(v uint64) int {
	if v >= 1<<32 && v < 1<<32+100000 {
		return 3_000_000 + int(v-1<<32)
	}
	if v > 1<<30 {
		return -777
	}
	return int(v)
}
