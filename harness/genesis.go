package main

// C17: genesis validation / initialisation / export observed on the real code.

import (
	"bufio"
	"encoding/json"
	"fmt"
	"math/rand"
	"os"

	sdkmath "cosmossdk.io/math"

	"github.com/circlefin/noble-cctp/x/cctp/types"
)

func opt(m M, k string) (int, bool) {
	v := geti(m, k)
	return v, v != -1
}

// GenesisFromAbstract builds the concrete genesis for an abstract genesis record (lists keep their order).
func (in *Instance) GenesisFromAbstract(g M) types.GenesisState {
	t := in.T
	gs := types.GenesisState{Owner: t.AddrString(gets(g, "owner")), AttesterManager: t.AddrString(gets(g, "attMgr")),
		Pauser: t.AddrString(gets(g, "pauser")), TokenController: t.AddrString(gets(g, "tokCtl"))}
	if v, ok := opt(g, "bm"); ok {
		gs.BurningAndMintingPaused = &types.BurningAndMintingPaused{Paused: v == 1}
	}
	if v, ok := opt(g, "sr"); ok {
		gs.SendingAndReceivingMessagesPaused = &types.SendingAndReceivingMessagesPaused{Paused: v == 1}
	}
	if v, ok := opt(g, "maxBody"); ok {
		gs.MaxMessageBodySize = &types.MaxMessageBodySize{Amount: SizeVal(v)}
	}
	if v, ok := opt(g, "nextNonce"); ok {
		gs.NextAvailableNonce = &types.Nonce{Nonce: t.Nonce(v)}
	}
	if v, ok := opt(g, "threshold"); ok {
		gs.SignatureThreshold = &types.SignatureThreshold{Amount: ThresholdVal(v)}
	}
	for _, a := range arr(g, "attesters") {
		am := a.(map[string]any)
		gs.AttesterList = append(gs.AttesterList, types.Attester{Attester: t.AttesterString(gets(am, "key"), gets(am, "sp"))})
	}
	for _, a := range arr(g, "limits") {
		am := a.(map[string]any)
		l := types.PerMessageBurnLimit{Denom: t.Denom(gets(am, "denom"))}
		if amt := geti(am, "amt"); amt != AbsentAmt {
			l.Amount = sdkmath.NewIntFromBigInt(t.Amount(amt))
		}
		gs.PerMessageBurnLimitList = append(gs.PerMessageBurnLimitList, l)
	}
	for _, a := range arr(g, "pairs") {
		am := a.(map[string]any)
		gs.TokenPairList = append(gs.TokenPairList, types.TokenPair{RemoteDomain: t.Dom(gets(am, "d")), RemoteToken: t.Bytes(getb(am, "t")),
			LocalToken: t.Denom(gets(am, "denom"))})
	}
	for _, a := range arr(g, "used") {
		am := a.(map[string]any)
		gs.UsedNoncesList = append(gs.UsedNoncesList, types.Nonce{SourceDomain: t.Dom(gets(am, "d")), Nonce: t.Nonce(geti(am, "n"))})
	}
	for _, a := range arr(g, "msgrs") {
		am := a.(map[string]any)
		gs.TokenMessengerList = append(gs.TokenMessengerList, types.RemoteTokenMessenger{DomainId: t.Dom(gets(am, "d")), Address: t.Bytes(getb(am, "addr"))})
	}
	return gs
}

// ProjectGenesis projects an exported genesis onto the abstract genesis record (lists as arrays = sets).
func (in *Instance) ProjectGenesis(gs *types.GenesisState) M {
	t := in.T
	g := M{"owner": t.AddrSym(gs.Owner), "attMgr": t.AddrSym(gs.AttesterManager), "pauser": t.AddrSym(gs.Pauser),
		"tokCtl": t.AddrSym(gs.TokenController), "bm": -1, "sr": -1, "maxBody": -1, "nextNonce": -1, "threshold": -1}
	if gs.BurningAndMintingPaused != nil {
		g["bm"] = b2i(gs.BurningAndMintingPaused.Paused)
	}
	if gs.SendingAndReceivingMessagesPaused != nil {
		g["sr"] = b2i(gs.SendingAndReceivingMessagesPaused.Paused)
	}
	if gs.MaxMessageBodySize != nil {
		g["maxBody"] = SizeSym(gs.MaxMessageBodySize.Amount)
	}
	if gs.NextAvailableNonce != nil {
		g["nextNonce"] = t.NonceSym(gs.NextAvailableNonce.Nonce)
	}
	if gs.SignatureThreshold != nil {
		g["threshold"] = ThresholdSym(gs.SignatureThreshold.Amount)
	}
	atts, lims, pairs, used, msgrs := []any{}, []any{}, []any{}, []any{}, []any{}
	for _, a := range gs.AttesterList {
		e := t.AttesterSym(a.Attester)
		atts = append(atts, M{"key": e.Key, "sp": e.Sp})
	}
	for _, l := range gs.PerMessageBurnLimitList {
		amt := AbsentAmt
		if !l.Amount.IsNil() {
			amt = t.AmountSym(l.Amount.BigInt())
		}
		lims = append(lims, M{"denom": t.DenomSym(l.Denom), "amt": amt})
	}
	for _, p := range gs.TokenPairList {
		pairs = append(pairs, M{"d": t.DomSym(p.RemoteDomain), "t": b32m(t.BytesSym(p.RemoteToken)), "denom": t.DenomSym(p.LocalToken)})
	}
	for _, u := range gs.UsedNoncesList {
		used = append(used, M{"d": t.DomSym(u.SourceDomain), "n": t.NonceSym(u.Nonce)})
	}
	for _, m := range gs.TokenMessengerList {
		msgrs = append(msgrs, M{"d": t.DomSym(m.DomainId), "addr": b32m(t.BytesSym(m.Address))})
	}
	g["attesters"], g["limits"], g["pairs"], g["used"], g["msgrs"] = atts, lims, pairs, used, msgrs
	return g
}

func b2i(b bool) int {
	if b {
		return 1
	}
	return 0
}

func guard(f func()) (res string) {
	defer func() {
		if r := recover(); r != nil {
			res = "panic"
		}
	}()
	f()
	return "ok"
}

// cmdGenesis: input lines {"g": <abstract genesis>}; output one observation per case.
func cmdGenesis(tab *SymTab, rd *os.File, bw *bufio.Writer) {
	inst := NewInstance(tab, false)
	sc := bufio.NewScanner(rd)
	sc.Buffer(make([]byte, 1<<20), 1<<26)
	id := 0
	for sc.Scan() {
		m, ok := parseLine(sc.Bytes())
		if !ok || m["g"] == nil {
			continue
		}
		id++
		g := getm(m, "g")
		inst.Reset()
		inst.RestartKeeper() // every genesis case on a keeper of its own: cases must not influence each other
		gs := inst.GenesisFromAbstract(g)
		obs := M{"exported": 0, "state": 0, "export": "na"}
		var verr error
		js, viaJSON := inst.genesisJSON(&gs)
		obs["validate"] = guard(func() {
			if viaJSON {
				verr = inst.Mod.ValidateGenesis(inst.cdc, nil, js)
			} else {
				verr = gs.Validate()
			}
		})
		if obs["validate"] == "ok" && verr != nil {
			obs["validate"] = "err"
		}
		obs["init"] = guard(func() { inst.InitGenesisReal(gs) })
		if obs["init"] == "ok" {
			st, junk := inst.ProjectState()
			obs["state"], obs["junk"] = st, toAny(junk)
			var exp *types.GenesisState
			obs["export"] = guard(func() { exp = inst.ExportGenesisReal() })
			if exp != nil {
				obs["exported"] = inst.ProjectGenesis(exp)
			}
		}
		bz, _ := json.Marshal(M{"id": id, "kind": "genesis", "g": g, "obs": obs})
		bw.Write(bz)
		bw.WriteByte('\n')
	}
	fmt.Fprintf(os.Stderr, "genesis: %d cases\n", id)
}

// Reimport: export the instance's state, import it into an empty chain, and report both projections
// plus a raw key/value comparison of the two module stores.
func (in *Instance) Reimport() M {
	before, _ := in.ProjectState()
	rawA := in.RawDump()
	var exp *types.GenesisState
	out := M{"state": before, "export": guard(func() { exp = in.ExportGenesisReal() })}
	if exp == nil {
		return out
	}
	out["validate"] = "ok"
	if exp.Validate() != nil {
		out["validate"] = "err"
	}
	if js, err := in.cdc.MarshalJSON(exp); err == nil && in.Mod.ValidateGenesis(in.cdc, nil, js) != nil {
		out["validate"] = "err"
	}
	// through JSON, as a chain export/import does
	bz, err := in.cdc.MarshalJSON(exp)
	if err != nil {
		out["export"] = "unmarshalable"
		return out
	}
	var back types.GenesisState
	if err := in.cdc.UnmarshalJSON(bz, &back); err != nil {
		out["export"] = "undecodable"
		return out
	}
	fresh := NewInstance(in.T, false)
	out["init"] = guard(func() { fresh.Mod.InitGenesis(fresh.ctx, fresh.cdc, bz) })
	_ = back
	// the ledger is not part of the module's genesis: carry it over so that projections are comparable
	for k, v := range in.LedgerDump() {
		setBig(fresh.ctx.KVStore(fresh.ledKey), []byte(k), v)
	}
	after, _ := fresh.ProjectState()
	out["reimported"] = after
	rawB := fresh.RawDump()
	am, bm := map[string]string{}, map[string]string{}
	for _, kv := range rawA {
		am[string(kv[0])] = string(kv[1])
	}
	for _, kv := range rawB {
		bm[string(kv[0])] = string(kv[1])
	}
	lost, extra, changed := []any{}, []any{}, []any{}
	for k, v := range am {
		if w, ok := bm[k]; !ok {
			lost = append(lost, in.AbstractKey([]byte(k)))
		} else if w != v {
			changed = append(changed, in.AbstractKey([]byte(k)))
		}
	}
	for k := range bm {
		if _, ok := am[k]; !ok {
			extra = append(extra, in.AbstractKey([]byte(k)))
		}
	}
	out["lost"], out["extra"], out["changed"] = lost, extra, changed
	return out
}

// cmdReimport: random histories; after every few transactions the reached state is exported and re-imported.
func cmdReimport(tab *SymTab, rd *os.File, bw *bufio.Writer, n, depth int, seed int64) {
	inst := NewInstance(tab, false)
	id := 0
	for h := *firstHistory; h < *firstHistory+n; h++ {
		g := &gen{r: rand.New(rand.NewSource(seed*7_000_003 + int64(h)))}
		inst.Reset()
		gs := jsonRoundTrip(g.genesis())
		if h%4 == 1 {
			gs["pending"] = "a2" // make sure states with a pending owner are among the exported ones
		}
		inst.Materialise(gs)
		init, _ := inst.ProjectState()
		g.st = jsonRoundTrip(init)
		for i := 0; i < depth; i++ {
			m, f := g.next()
			ev := jsonRoundTrip(runEvent(inst, g.st, jsonRoundTrip(m), f))
			g.absorb(ev)
			if i%7 == 6 || i == depth-1 {
				id++
				bz, _ := json.Marshal(M{"id": id, "kind": "reimport", "history": h, "step": i + 1, "obs": inst.Reimport()})
				bw.Write(bz)
				bw.WriteByte('\n')
			}
		}
	}
	// given histories (TLC-enumerated paths with discarded and failing transactions): each on a chain and keeper of
	// its own, exported and re-imported at its end
	if rd != os.Stdin {
		sc := bufio.NewScanner(rd)
		sc.Buffer(make([]byte, 1<<20), 1<<26)
		gh := 5_000_000
		for sc.Scan() {
			rec, ok := parseLine(sc.Bytes())
			if !ok || rec["init"] == nil {
				continue
			}
			gh++
			one := NewInstance(tab, false)
			init := getm(rec, "init")
			one.Materialise(init)
			cur := init
			evs := arr(rec, "events")
			for _, e := range evs {
				em := e.(map[string]any)
				ev := jsonRoundTrip(runEvent(one, cur, getm(em, "msg"), faultsOf(em["faults"])))
				cur = getm(getm(ev, "obs"), "post")
			}
			id++
			bz, _ := json.Marshal(M{"id": id, "kind": "reimport", "history": gh, "step": len(evs), "obs": one.Reimport(),
				"given": M{"init": init, "events": evs}})
			bw.Write(bz)
			bw.WriteByte('\n')
		}
	}
	fmt.Fprintf(os.Stderr, "reimport: %d states\n", id)
}
