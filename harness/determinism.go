package main

// C18: replicas of the same history must agree byte for byte (response bytes, event bytes, store root hash).
// Replicas: a fresh instance, an instance created after an unrelated history ran in this process, several
// instances running concurrently on goroutines, and a second OS process.

import (
	"bufio"
	"crypto/sha256"
	"encoding/hex"
	"encoding/json"
	"fmt"
	"math/rand"
	"os"
	"os/exec"
	"sync"

	abci "github.com/cometbft/cometbft/abci/types"
	"github.com/cosmos/gogoproto/proto"
)

type concreteTx struct {
	TypeURL  string       `json:"type_url"`
	Wire     string       `json:"wire"` // hex
	Faults   []bool       `json:"faults"`
	Inner    []concreteTx `json:"inner,omitempty"` // a multi-message transaction
	Simulate bool         `json:"simulate,omitempty"`
}

// concretiseTx turns an abstract transaction into concrete bytes (recursively for a batch).
func concretiseTx(inst *Instance, m M, f []bool) concreteTx {
	if gets(m, "type") == "Simulate" {
		tx := concretiseTx(inst, getm(m, "tx"), f)
		tx.Simulate = true
		return tx
	}
	if gets(m, "type") == "Batch" {
		tx := concreteTx{Faults: f}
		for _, im := range arr(m, "msgs") {
			tx.Inner = append(tx.Inner, concretiseTx(inst, im.(map[string]any), nil))
		}
		return tx
	}
	u, w := inst.Concretise(m)
	return concreteTx{TypeURL: u, Wire: hex.EncodeToString(w), Faults: f}
}

func runConcrete(inst *Instance, tx concreteTx) TxResult {
	inst.discard = tx.Simulate
	defer func() { inst.discard = false }()
	if tx.Inner != nil {
		var txs [][2]any
		for _, in := range tx.Inner {
			w, _ := hex.DecodeString(in.Wire)
			txs = append(txs, [2]any{in.TypeURL, w})
		}
		r, _ := inst.RunBatch(txs, tx.Faults)
		return r
	}
	wire, _ := hex.DecodeString(tx.Wire)
	return inst.RunTx(tx.TypeURL, wire, tx.Faults)
}

type concreteHistory struct {
	ID      int          `json:"id"`
	Genesis M            `json:"genesis"` // abstract state the chain is initialised to
	Txs     []concreteTx `json:"txs"`
}

// stepDigest: everything a validator would compare after a transaction
func stepDigest(r TxResult, apphash []byte) string {
	h := sha256.New()
	h.Write([]byte(r.Res))
	h.Write(r.RespBz)
	for _, e := range r.Events {
		bz, err := proto.Marshal((*abci.Event)(&e))
		if err != nil {
			panic(err)
		}
		h.Write(bz)
	}
	h.Write(apphash)
	return hex.EncodeToString(h.Sum(nil))[:24]
}

// replayConcrete runs a recorded concrete history on a new IAVL-backed instance with a commit per transaction.
func replayConcrete(tab *SymTab, h concreteHistory) []string { return replayConcreteR(tab, h, false) }

// replayConcreteR with restart=true re-creates the keeper before every transaction (only the store carries state).
func replayConcreteR(tab *SymTab, h concreteHistory, restart bool) []string {
	return replayOn(NewInstance(tab, true), h, restart)
}

func replayOn(inst *Instance, h concreteHistory, restart bool) []string {
	inst.Materialise(h.Genesis)
	out := []string{hex.EncodeToString(inst.Commit())[:24]}
	for _, tx := range h.Txs {
		if restart {
			inst.RestartKeeper()
		}
		r := runConcrete(inst, tx)
		out = append(out, stepDigest(r, inst.Commit()))
	}
	return out
}

// recordHistory generates a history with the random driver on an IAVL instance and records its concrete transactions.
func recordHistory(tab *SymTab, id int, depth int, seed int64) (concreteHistory, []string) {
	g := &gen{r: rand.New(rand.NewSource(seed*9_000_011 + int64(id)))}
	inst := NewInstance(tab, true)
	gs := jsonRoundTrip(g.genesis())
	inst.Materialise(gs)
	h := concreteHistory{ID: id, Genesis: gs}
	digests := []string{hex.EncodeToString(inst.Commit())[:24]}
	init, _ := inst.ProjectState()
	g.st = jsonRoundTrip(init)
	for i := 0; i < depth; i++ {
		m, f := g.next()
		m = jsonRoundTrip(m)
		ctx := concretiseTx(inst, m, f)
		r := runConcrete(inst, ctx)
		h.Txs = append(h.Txs, ctx)
		digests = append(digests, stepDigest(r, inst.Commit()))
		post, _ := inst.ProjectState()
		ev := jsonRoundTrip(M{"msg": m, "obs": M{"res": r.Res, "post": post, "evs": inst.ProjectEvents(r.Events)}})
		g.absorb(ev)
	}
	return h, digests
}

// recordGiven runs a given abstract history {init, events:[{msg, faults}]} and records its concrete transactions.
func recordGiven(tab *SymTab, id int, rec M) (concreteHistory, []string) {
	inst := NewInstance(tab, true)
	gs := getm(rec, "init")
	inst.Materialise(gs)
	h := concreteHistory{ID: id, Genesis: gs}
	digests := []string{hex.EncodeToString(inst.Commit())[:24]}
	for _, e := range arr(rec, "events") {
		em := e.(map[string]any)
		ctx := concretiseTx(inst, getm(em, "msg"), faultsOf(em["faults"]))
		r := runConcrete(inst, ctx)
		h.Txs = append(h.Txs, ctx)
		digests = append(digests, stepDigest(r, inst.Commit()))
	}
	return h, digests
}

func cmdDeterminism(tab *SymTab, rd *os.File, bw *bufio.Writer, n, depth int, seed int64) {
	self, _ := os.Executable()
	var hs []concreteHistory
	first := map[int][]string{}
	gid, ngen := 2_000_000, 0
	for id := *firstHistory; id < *firstHistory+n; id++ {
		h, d := recordHistory(tab, id, depth, seed)
		hs = append(hs, h)
		first[id] = d
	}
	// histories given on the input (TLC-enumerated paths) in addition to the random ones
	if rd != os.Stdin {
		sc := bufio.NewScanner(rd)
		sc.Buffer(make([]byte, 1<<20), 1<<26)
		id := 1_000_000
		for sc.Scan() {
			rec, ok := parseLine(sc.Bytes())
			if ok && rec["g"] != nil { // a genesis case (TLC-enumerated): initialising fresh chains from it must agree
				gid++
				if *onlyGiven == 0 || *onlyGiven == gid {
					writeGenesisReplicas(tab, bw, gid, getm(rec, "g"))
					ngen++
				}
				continue
			}
			if !ok || rec["init"] == nil {
				continue
			}
			id++
			if *onlyGiven != 0 && id != *onlyGiven {
				continue
			}
			h, d := recordGiven(tab, id, rec)
			hs = append(hs, h)
			first[id] = d
		}
	}
	// second OS process replays all histories from a file
	tmp, err := os.CreateTemp("", "verif-det-*.json")
	if err != nil {
		panic(err)
	}
	defer os.Remove(tmp.Name())
	json.NewEncoder(tmp).Encode(hs)
	tmp.Close()
	childOut, err := exec.Command(self, "detchild", "-in", tmp.Name()).Output()
	child := map[string][]string{}
	if err == nil {
		json.Unmarshal(childOut, &child)
	}
	for i, h := range hs {
		reps := M{"first": first[h.ID], "fresh": replayConcrete(tab, h), "restarted": replayConcreteR(tab, h, true)}
		// after an unrelated history in the same process
		other := hs[(i+1)%len(hs)]
		replayConcrete(tab, other)
		reps["after_other"] = replayConcrete(tab, h)
		// on a keeper object that already executed the other history (its stores are replaced by empty ones)
		reused := NewInstance(tab, true)
		replayOn(reused, other, false)
		reused.Reset()
		reps["reused_keeper"] = replayOn(reused, h, false)
		// concurrently with replicas of this and of another history
		var wg sync.WaitGroup
		conc := make([][]string, 6)
		for c := 0; c < 6; c++ {
			wg.Add(1)
			go func(c int) {
				defer wg.Done()
				if c%2 == 0 {
					conc[c] = replayConcrete(tab, h)
				} else {
					replayConcrete(tab, other)
				}
			}(c)
		}
		wg.Wait()
		for c := 0; c < 6; c += 2 {
			reps[fmt.Sprintf("concurrent%d", c/2)] = conc[c]
		}
		if d, ok := child[fmt.Sprint(h.ID)]; ok {
			reps["process"] = d
		} else {
			reps["process"] = []string{"child process failed"}
		}
		bz, _ := json.Marshal(M{"id": h.ID, "kind": "det", "steps": len(h.Txs), "replicas": reps})
		bw.Write(bz)
		bw.WriteByte('\n')
	}
	fmt.Fprintf(os.Stderr, "determinism: %d histories x 9 replicas, %d genesis cases x %d fresh chains\n", len(hs), ngen, genesisReplicas)
}

const genesisReplicas = 40

// genesisDigest initialises a fresh chain from the genesis case and digests what a validator would compare:
// whether initialisation succeeded, the committed root hash, and the exported genesis bytes.
func genesisDigest(tab *SymTab, g M) string {
	inst := NewInstance(tab, true)
	gs := inst.GenesisFromAbstract(g)
	h := sha256.New()
	res := guard(func() { inst.InitGenesisReal(gs) })
	h.Write([]byte(res))
	if res == "ok" {
		h.Write(inst.Commit())
		var exp []byte
		h.Write([]byte(guard(func() { exp = inst.Mod.ExportGenesis(inst.ctx, inst.cdc) })))
		h.Write(exp)
	}
	return hex.EncodeToString(h.Sum(nil))[:24]
}

// writeGenesisReplicas: many fresh chains from one genesis; "fresh_chains" reports a digest that differs from
// the first one if any replica disagrees.
func writeGenesisReplicas(tab *SymTab, bw *bufio.Writer, id int, g M) {
	first := genesisDigest(tab, g)
	other := first
	for i := 1; i < genesisReplicas; i++ {
		if d := genesisDigest(tab, g); d != first {
			other = d
			break
		}
	}
	bz, _ := json.Marshal(M{"id": id, "kind": "det", "steps": 0, "g": g,
		"replicas": M{"first": []string{first}, "fresh_chains": []string{other}}})
	bw.Write(bz)
	bw.WriteByte('\n')
}

func cmdDetChild(tab *SymTab, rd *os.File, bw *bufio.Writer) {
	var hs []concreteHistory
	if err := json.NewDecoder(rd).Decode(&hs); err != nil {
		panic(err)
	}
	out := map[string][]string{}
	for _, h := range hs {
		out[fmt.Sprint(h.ID)] = replayConcrete(tab, h)
	}
	json.NewEncoder(bw).Encode(out)
}
