package main

import (
	"bufio"
	"math/rand"
	"os"
)

func newRand(seed int64) *rand.Rand { return rand.New(rand.NewSource(seed)) }

func cmdSim(tab *SymTab, rd *os.File, bw *bufio.Writer, workers int, iavl bool) { panic("todo") }
func cmdReplay(tab *SymTab, rd *os.File, bw *bufio.Writer)                      { panic("todo") }
func extraCommand(cmd string, tab *SymTab, rd *os.File, bw *bufio.Writer, workers, n, depth int, seed int64) bool {
	switch cmd {
	case "genesis":
		cmdGenesis(tab, rd, bw)
	case "codec":
		cmdCodec(bw, n, seed)
	case "codecreplay":
		cmdCodecReplay(rd, bw)
	case "misc":
		cmdMisc(tab, bw, seed)
	case "determinism":
		cmdDeterminism(tab, rd, bw, n, depth, seed)
	case "detchild":
		cmdDetChild(tab, rd, bw)
	case "reimport":
		cmdReimport(tab, rd, bw, n, depth, seed)
	default:
		return false
	}
	return true
}
