package main

import (
	"bufio"
	"os"
)

func cmdSim(tab *SymTab, rd *os.File, bw *bufio.Writer, workers int, iavl bool)   { panic("todo") }
func cmdReplay(tab *SymTab, rd *os.File, bw *bufio.Writer)                        { panic("todo") }
func extraCommand(cmd string, tab *SymTab, rd *os.File, bw *bufio.Writer, workers, n, depth int, seed int64) bool {
	switch cmd {
	case "genesis":
		cmdGenesis(tab, rd, bw)
	case "codec":
		cmdCodec(bw, n, seed)
	case "codecreplay":
		cmdCodecReplay(rd, bw)
	case "reimport":
		cmdReimport(tab, bw, n, depth, seed)
	default:
		return false
	}
	return true
}
