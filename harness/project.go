package main

// concrete observations -> abstract values of the specification

import (
	"bytes"
	"encoding/binary"
	"encoding/hex"
	"fmt"
	"math/big"
	"sort"
	"strings"

	abci "github.com/cometbft/cometbft/abci/types"
	sdk "github.com/cosmos/cosmos-sdk/types"
	"google.golang.org/protobuf/encoding/protowire"

	"github.com/circlefin/noble-cctp/x/cctp/types"
)

// documented key layout (x/cctp/spec/01_state.md, x/cctp/types/keys.go), restated here independently
const (
	pfxAttester = "Attester/value/"
	pfxLimit    = "PerMessageBurnLimit/value/"
	pfxMsgr     = "RemoteTokenMessenger/value/"
	pfxPair     = "TokenPair/value/"
	pfxUsed     = "UsedNonce/value/"
	keyBM       = "BurningAndMintingPaused/value/BurningAndMintingPaused/value/"
	keyMax      = "MaxMessageBodySize/value/MaxMessageBodySize/value/"
	keyNext     = "NextAvailableNonce/value/NextAvailableNonce/value/"
	keySR       = "SendingAndReceivingMessagesPaused/value/SendingAndReceivingMessagesPaused/value/"
	keyThr      = "SignatureThreshold/value/SignatureThreshold/value/"
)

// AbstractKey maps a raw store key to the abstract key used by the specification's write sets.
func (in *Instance) AbstractKey(k []byte) M {
	s := string(k)
	switch s {
	case "owner", "pending-owner", "attester-manager", "pauser", "token-controller":
		return M{"k": map[string]string{"owner": "owner", "pending-owner": "pending", "attester-manager": "attMgr",
			"pauser": "pauser", "token-controller": "tokCtl"}[s]}
	case keyBM:
		return M{"k": "pausedBM"}
	case keySR:
		return M{"k": "pausedSR"}
	case keyMax:
		return M{"k": "maxBody"}
	case keyNext:
		return M{"k": "nextNonce"}
	case keyThr:
		return M{"k": "threshold"}
	}
	switch {
	case strings.HasPrefix(s, pfxAttester) && strings.HasSuffix(s, "/"):
		e := in.T.AttesterSym(s[len(pfxAttester) : len(s)-1])
		return M{"k": "attester", "id": M{"key": e.Key, "sp": e.Sp}}
	case strings.HasPrefix(s, pfxLimit) && strings.HasSuffix(s, "/"):
		return M{"k": "limit", "id": M{"denom": in.T.DenomSym(s[len(pfxLimit) : len(s)-1])}}
	case strings.HasPrefix(s, pfxMsgr) && len(s) == len(pfxMsgr)+5 && s[len(s)-1] == '/':
		return M{"k": "msgr", "id": M{"d": in.T.DomSym(binary.BigEndian.Uint32(k[len(pfxMsgr):]))}}
	case strings.HasPrefix(s, pfxUsed) && len(s) == len(pfxUsed)+13 && s[len(s)-1] == '/':
		r := k[len(pfxUsed):]
		return M{"k": "used", "id": M{"d": in.T.DomSym(binary.BigEndian.Uint32(r[:4])), "n": in.T.NonceSym(binary.BigEndian.Uint64(r[4:12]))}}
	case strings.HasPrefix(s, pfxPair) && len(s) == len(pfxPair)+33 && s[len(s)-1] == '/':
		if id, ok := in.pairKeyRev()[hex.EncodeToString(k[len(pfxPair):len(k)-1])]; ok {
			return M{"k": "pair", "id": id}
		}
		return M{"k": "pair", "id": M{"d": "?", "t": b32m(B32{N: 32, Hi: "?", Lo: "?" + hex.EncodeToString(k[len(pfxPair):len(k)-1])})}}
	}
	return M{"k": "?", "id": M{"raw": hex.EncodeToString(k)}}
}

// pbFields parses top-level protobuf fields (enough for the small value types of the store).
func pbFields(bz []byte) (map[protowire.Number][]byte, map[protowire.Number]uint64, bool) {
	bs, vs := map[protowire.Number][]byte{}, map[protowire.Number]uint64{}
	for len(bz) > 0 {
		n, typ, tl := protowire.ConsumeTag(bz)
		if tl < 0 {
			return nil, nil, false
		}
		bz = bz[tl:]
		switch typ {
		case protowire.VarintType:
			v, l := protowire.ConsumeVarint(bz)
			if l < 0 {
				return nil, nil, false
			}
			vs[n] = v
			bz = bz[l:]
		case protowire.BytesType:
			v, l := protowire.ConsumeBytes(bz)
			if l < 0 {
				return nil, nil, false
			}
			bs[n] = v
			bz = bz[l:]
		default:
			return nil, nil, false
		}
	}
	return bs, vs, true
}

// ProjectState projects the raw module store and the ledger double onto the abstract state record.
// Raw keys that the documented layout does not explain are returned separately.
func (in *Instance) ProjectState() (M, []string) {
	t := in.T
	s := M{"owner": "?missing", "pending": "none", "attMgr": "?missing", "pauser": "?missing", "tokCtl": "?missing",
		"threshold": -1, "pausedBM": false, "pausedSR": false, "maxBody": -1, "nextNonce": -777}
	atts, used, pairs, msgrs, limits := []any{}, []any{}, []any{}, []any{}, []any{}
	var junk []string
	// `bad` reports a raw key that the documented layout does not explain; a key that merely disagrees with its
	// value is projected from the value and reported as a note (it surfaces as a state divergence, not as junk)
	bad := func(k []byte, why string) {
		if why == "key/value mismatch" {
			in.notes = append(in.notes, hex.EncodeToString(k)+":"+why)
			return
		}
		junk = append(junk, hex.EncodeToString(k)+":"+why)
	}
	for _, kv := range in.RawDump() {
		k, v := kv[0], kv[1]
		ak := in.AbstractKey(k)
		bs, vs, ok := pbFields(v)
		switch ak["k"] {
		case "owner", "pending", "attMgr", "pauser", "tokCtl":
			s[ak["k"].(string)] = t.AddrSym(string(v))
		case "pausedBM", "pausedSR":
			if !ok {
				bad(k, "value")
			}
			s[ak["k"].(string)] = vs[1] != 0
		case "maxBody":
			if !ok || SizeSym(vs[1]) == -777 {
				bad(k, "value")
			}
			s["maxBody"] = SizeSym(vs[1])
		case "threshold":
			if !ok || vs[1] > 0xFFFFFFFF {
				bad(k, "value")
			}
			s["threshold"] = ThresholdSym(uint32(vs[1]))
		case "nextNonce":
			if !ok {
				bad(k, "value")
			}
			s["nextNonce"] = t.NonceSym(vs[2])
		case "attester":
			e := t.AttesterSym(string(bs[1]))
			if !ok || string(k) != pfxAttester+string(bs[1])+"/" {
				bad(k, "key/value mismatch")
			}
			atts = append(atts, M{"key": e.Key, "sp": e.Sp})
		case "limit":
			amt, okk := new(big.Int).SetString(string(bs[2]), 10)
			if !ok || !okk || string(k) != pfxLimit+string(bs[1])+"/" {
				bad(k, "key/value mismatch")
				amt = big.NewInt(-777)
			}
			limits = append(limits, M{"denom": t.DenomSym(string(bs[1])), "amt": t.AmountSym(amt)})
		case "msgr":
			if !ok || binary.BigEndian.Uint32(k[len(pfxMsgr):]) != uint32(vs[1]) {
				bad(k, "key/value mismatch")
			}
			msgrs = append(msgrs, M{"d": t.DomSym(uint32(vs[1])), "addr": b32m(t.BytesSym(bs[2]))})
		case "used":
			r := k[len(pfxUsed):]
			if !ok || binary.BigEndian.Uint32(r[:4]) != uint32(vs[1]) || binary.BigEndian.Uint64(r[4:12]) != vs[2] {
				bad(k, "key/value mismatch")
			}
			used = append(used, M{"d": t.DomSym(uint32(vs[1])), "n": t.NonceSym(vs[2])})
		case "pair":
			var d [4]byte
			binary.BigEndian.PutUint32(d[:], uint32(vs[1]))
			if !ok || !bytes.Equal(keccak(d[:], bs[2]), k[len(pfxPair):len(k)-1]) {
				bad(k, "key/value mismatch")
			}
			pairs = append(pairs, M{"d": t.DomSym(uint32(vs[1])), "t": b32m(t.BytesSym(bs[2])), "denom": t.DenomSym(string(bs[3]))})
		default:
			bad(k, "unexplained key")
		}
	}
	s["attesters"], s["used"], s["pairs"], s["msgrs"], s["limits"] = atts, used, pairs, msgrs, limits
	// ledger
	bal := M{}
	for _, sym := range []string{"MODULE", "zero", "x1", "x2", "s8", "l33", "p1", "a1", "a2", "a3", "a4", "a5", "a6", "a7", "a8"} {
		bal[sym] = 0
	}
	supply := 0
	for k, v := range in.LedgerDump() {
		parts := strings.Split(k, "/")
		switch parts[0] {
		case "bal":
			ab, _ := hex.DecodeString(parts[1])
			sym := t.Addr20Sym(ab)
			for fs, full := range t.fullAddr {
				if bytes.Equal(full, ab) {
					sym = fs
				}
			}
			if parts[2] != t.MintDenom {
				sym = sym + "/" + parts[2]
			}
			bal[sym] = t.AmountSym(v)
		case "sup":
			if parts[1] == t.MintDenom {
				supply = t.AmountSym(v)
			} else {
				bal["supply/"+parts[1]] = t.AmountSym(v)
			}
		}
	}
	s["bal"], s["supply"] = bal, supply
	return s, junk
}

// canon returns a canonical JSON rendering in which arrays of records are compared as sets.
func canon(v any) string {
	switch x := v.(type) {
	case map[string]any:
		ks := sortedKeys(x)
		out := "{"
		for _, k := range ks {
			out += k + ":" + canon(x[k]) + ","
		}
		return out + "}"
	case []any:
		var el []string
		for _, e := range x {
			el = append(el, canon(e))
		}
		sort.Strings(el)
		return "[" + strings.Join(el, ",") + "]"
	case float64:
		return fmt.Sprint(int(x))
	}
	return fmt.Sprint(v)
}

// fullState completes an abstract pre-state with zero balances for the symbols the projection always reports.
func fullState(pre, init M) M {
	out := M{}
	for k, v := range pre {
		out[k] = v
	}
	b := M{}
	for k := range getm(init, "bal") {
		b[k] = 0
	}
	for k, v := range getm(pre, "bal") {
		b[k] = v
	}
	out["bal"] = b
	return out
}

// sameState: the materialised state projects back onto the abstract state it was built from
// (balances absent from the abstract state are 0).
func sameState(pre, init M) bool {
	a, b := M{}, M{}
	for k, v := range pre {
		a[k] = v
	}
	for k, v := range init {
		b[k] = v
	}
	ab, bb := M{}, M{}
	for k, v := range getm(init, "bal") {
		bb[k] = v
		ab[k] = 0
	}
	for k, v := range getm(pre, "bal") {
		ab[k] = v
	}
	a["bal"], b["bal"] = ab, bb
	return canon(a) == canon(b)
}

func (in *Instance) hexB32(h string) M {
	bz, err := hex.DecodeString(h)
	if err != nil {
		return b32m(B32{N: 32, Hi: "?", Lo: "?nothex:" + h})
	}
	return b32m(in.T.BytesSym(bz))
}

func (in *Instance) ProjectEvents(evs []sdk.Event) []any {
	t := in.T
	out := []any{}
	for _, e := range evs {
		pm, err := sdk.ParseTypedEvent(abci.Event(e))
		if err != nil {
			out = append(out, M{"e": "?" + e.Type})
			continue
		}
		switch ev := pm.(type) {
		case *types.MessageSent:
			out = append(out, M{"e": "MessageSent", "msg": in.C.WireSym(ev.Message)})
		case *types.DepositForBurn:
			out = append(out, M{"e": "DepositForBurn", "nonce": t.NonceSym(ev.Nonce), "tok": in.hexB32(ev.BurnToken),
				"amt": t.AmountSym(ev.Amount.BigInt()), "depositor": t.AddrSym(ev.Depositor), "mrcpt": b32m(t.BytesSym(ev.MintRecipient)),
				"dst": t.DomSym(ev.DestinationDomain), "msgr": b32m(t.BytesSym(ev.DestinationTokenMessenger)),
				"caller": b32m(t.BytesSym(ev.DestinationCaller))})
		case *types.MintAndWithdraw:
			out = append(out, M{"e": "MintAndWithdraw", "rcpt": b32m(t.BytesSym(ev.MintRecipient)), "amt": t.AmountSym(ev.Amount.BigInt()),
				"denom": t.DenomSym(ev.MintToken)})
		case *types.MessageReceived:
			out = append(out, M{"e": "MessageReceived", "caller": t.AddrSym(ev.Caller), "src": t.DomSym(ev.SourceDomain),
				"nonce": t.NonceSym(ev.Nonce), "sender": b32m(t.BytesSym(ev.Sender)), "body": in.C.BodySym(ev.MessageBody)})
		case *types.OwnershipTransferStarted:
			out = append(out, M{"e": "OwnershipTransferStarted", "prev": t.AddrSym(ev.PreviousOwner), "new": t.AddrSym(ev.NewOwner)})
		case *types.OwnerUpdated:
			out = append(out, M{"e": "OwnerUpdated", "prev": t.AddrSym(ev.PreviousOwner), "new": t.AddrSym(ev.NewOwner)})
		case *types.PauserUpdated:
			out = append(out, M{"e": "PauserUpdated", "prev": t.AddrSym(ev.PreviousPauser), "new": t.AddrSym(ev.NewPauser)})
		case *types.AttesterManagerUpdated:
			out = append(out, M{"e": "AttesterManagerUpdated", "prev": t.AddrSym(ev.PreviousAttesterManager), "new": t.AddrSym(ev.NewAttesterManager)})
		case *types.TokenControllerUpdated:
			out = append(out, M{"e": "TokenControllerUpdated", "prev": t.AddrSym(ev.PreviousTokenController), "new": t.AddrSym(ev.NewTokenController)})
		case *types.MaxMessageBodySizeUpdated:
			out = append(out, M{"e": "MaxMessageBodySizeUpdated", "size": SizeSym(ev.NewMaxMessageBodySize)})
		case *types.RemoteTokenMessengerAdded:
			out = append(out, M{"e": "RemoteTokenMessengerAdded", "d": t.DomSym(ev.Domain), "addr": b32m(t.BytesSym(ev.RemoteTokenMessenger))})
		case *types.RemoteTokenMessengerRemoved:
			out = append(out, M{"e": "RemoteTokenMessengerRemoved", "d": t.DomSym(ev.Domain), "addr": b32m(t.BytesSym(ev.RemoteTokenMessenger))})
		case *types.AttesterEnabled:
			a := t.AttesterSym(ev.Attester)
			out = append(out, M{"e": "AttesterEnabled", "att": M{"key": a.Key, "sp": a.Sp}})
		case *types.AttesterDisabled:
			a := t.AttesterSym(ev.Attester)
			out = append(out, M{"e": "AttesterDisabled", "att": M{"key": a.Key, "sp": a.Sp}})
		case *types.SignatureThresholdUpdated:
			out = append(out, M{"e": "SignatureThresholdUpdated", "old": int(ev.OldSignatureThreshold), "new": int(ev.NewSignatureThreshold)})
		case *types.BurningAndMintingPausedEvent:
			out = append(out, M{"e": "BurningAndMintingPausedEvent"})
		case *types.BurningAndMintingUnpausedEvent:
			out = append(out, M{"e": "BurningAndMintingUnpausedEvent"})
		case *types.SendingAndReceivingPausedEvent:
			out = append(out, M{"e": "SendingAndReceivingPausedEvent"})
		case *types.SendingAndReceivingUnpausedEvent:
			out = append(out, M{"e": "SendingAndReceivingUnpausedEvent"})
		case *types.TokenPairLinked:
			out = append(out, M{"e": "TokenPairLinked", "denom": t.DenomSym(ev.LocalToken), "d": t.DomSym(ev.RemoteDomain), "t": b32m(t.BytesSym(ev.RemoteToken))})
		case *types.TokenPairUnlinked:
			out = append(out, M{"e": "TokenPairUnlinked", "denom": t.DenomSym(ev.LocalToken), "d": t.DomSym(ev.RemoteDomain), "t": b32m(t.BytesSym(ev.RemoteToken))})
		case *types.SetBurnLimitPerMessage:
			out = append(out, M{"e": "SetBurnLimitPerMessage", "denom": t.DenomSym(ev.Token), "amt": t.AmountSym(ev.BurnLimitPerMessage.BigInt())})
		default:
			out = append(out, M{"e": "?" + e.Type})
		}
	}
	return out
}

func (in *Instance) ProjectCalls(calls []LedgerCall) []any {
	t := in.T
	out := []any{}
	for _, c := range calls {
		to := "none"
		switch c.Fn {
		case "Transfer":
			to = "?" + c.To
			if c.To == "cctp" {
				to = "MODULE"
			}
		case "Mint":
			to = t.AddrSym(c.To)
		}
		out = append(out, M{"fn": c.Fn, "from": t.AddrSym(c.From), "to": to, "denom": t.DenomSym(c.Denom),
			"amt": t.AmountSym(c.Amount), "ok": c.OK})
	}
	return out
}

var nonceRespTypes = map[string]bool{"SendMessage": true, "SendMessageWithCaller": true, "DepositForBurn": true, "DepositForBurnWithCaller": true}

func (in *Instance) ProjectResp(typ string, r TxResult) M {
	if r.Res != "ok" || !nonceRespTypes[typ] {
		return M{"nonce": -1}
	}
	_, vs, ok := pbFields(r.RespBz)
	if !ok {
		return M{"nonce": -777}
	}
	return M{"nonce": in.T.NonceSym(vs[1])}
}

func (in *Instance) ProjectWrites(ws []WriteRec) []any {
	seen := map[string]bool{}
	out := []any{}
	for _, w := range ws {
		ak := in.AbstractKey(w.Key)
		id := fmt.Sprint(ak)
		if !seen[id] {
			seen[id] = true
			out = append(out, ak)
		}
	}
	sort.Slice(out, func(i, j int) bool { return fmt.Sprint(out[i]) < fmt.Sprint(out[j]) })
	return out
}

// pairKeyRev: keccak(domain || token) -> abstract (d, t) for every domain and 32-byte symbol of the table
func (in *Instance) pairKeyRev() map[string]M {
	if in.T.pairRev != nil {
		return in.T.pairRev
	}
	return in.T.buildPairRev()
}
