package main

// C19 (query half): what the 19 gRPC queries report, reconstructed into abstract values, including every
// page of every list query in key mode and in offset mode, and single-item lookups of present and absent keys.
// C20 (query half): hostile requests under recover().

import (
	"context"
	"encoding/hex"
	"fmt"

	"github.com/cosmos/cosmos-sdk/types/query"
	"github.com/cosmos/gogoproto/proto"

	"github.com/circlefin/noble-cctp/x/cctp/types"
)

// roundTrip sends a request through protobuf like a gRPC client/server pair would.
func roundTrip[T proto.Message](req T, fresh T) T {
	bz, err := proto.Marshal(req)
	if err != nil {
		panic(err)
	}
	if err := proto.Unmarshal(bz, fresh); err != nil {
		panic(err)
	}
	return fresh
}

type pager func(p *query.PageRequest) (entries []any, next []byte, total uint64, err error)

// walk follows a list query to the end in key mode and in offset mode with the given page size.
func walk(f pager, limit uint64) M {
	out := M{"limit": int(limit)}
	var pagesK []any
	var key []byte
	okK := "ok"
	for i := 0; i < 1000; i++ {
		es, next, _, err := f(&query.PageRequest{Key: key, Limit: limit})
		if err != nil {
			okK = "err"
			break
		}
		pagesK = append(pagesK, es)
		if len(next) == 0 {
			break
		}
		key = next
	}
	// a large page (limit above the default page size of 100) continued from a cursor: everything after the first entry
	bigkey, bigres := []any{}, "na"
	if es, next, _, err := f(&query.PageRequest{Limit: 1}); err == nil && len(next) > 0 && len(es) == 1 {
		rest, next2, _, err2 := f(&query.PageRequest{Key: next, Limit: 1000})
		if err2 != nil || len(next2) != 0 {
			bigres = "err"
		} else {
			bigres, bigkey = "ok", rest
		}
	}
	out["bigkey"], out["bigres"] = bigkey, bigres
	var pagesO []any
	totals := []any{}
	okO := "ok"
	for off := uint64(0); off < 100000; off += limit {
		es, _, total, err := f(&query.PageRequest{Offset: off, Limit: limit, CountTotal: true})
		if err != nil {
			okO = "err"
			break
		}
		totals = append(totals, int(total))
		pagesO = append(pagesO, es)
		if uint64(len(es)) < limit || off+limit >= total {
			break
		}
	}
	if pagesK == nil {
		pagesK = []any{}
	}
	if pagesO == nil {
		pagesO = []any{}
	}
	out["key"], out["keyres"], out["offset"], out["offres"], out["totals"] = pagesK, okK, pagesO, okO, totals
	return out
}

func anys[T any](xs []T, f func(T) any) []any {
	out := make([]any, 0, len(xs))
	for _, x := range xs {
		out = append(out, f(x))
	}
	return out
}

// QueryView issues every query against the current state.  `limit` is the page size for the list queries.
func (in *Instance) QueryView(limit uint64) (q M) {
	t := in.T
	ctx := context.Context(in.ctx)
	k := routed{in} // through the gRPC query router
	q = M{"panic": false}
	defer func() {
		if r := recover(); r != nil {
			q = M{"panic": true, "what": fmt.Sprint(r)}
		}
	}()
	if r, err := k.Roles(ctx, roundTrip(&types.QueryRolesRequest{}, &types.QueryRolesRequest{})); err == nil {
		q["owner"], q["attMgr"], q["pauser"], q["tokCtl"] = t.AddrSym(r.Owner), t.AddrSym(r.AttesterManager), t.AddrSym(r.Pauser), t.AddrSym(r.TokenController)
	} else {
		q["owner"], q["attMgr"], q["pauser"], q["tokCtl"] = "?err", "?err", "?err", "?err"
	}
	q["pausedBM"], q["pausedSR"], q["threshold"], q["maxBody"], q["nextNonce"] = "?err", "?err", -1, -1, -777
	if r, err := k.BurningAndMintingPaused(ctx, &types.QueryGetBurningAndMintingPausedRequest{}); err == nil {
		q["pausedBM"] = r.Paused.Paused
	}
	if r, err := k.SendingAndReceivingMessagesPaused(ctx, &types.QueryGetSendingAndReceivingMessagesPausedRequest{}); err == nil {
		q["pausedSR"] = r.Paused.Paused
	}
	if r, err := k.SignatureThreshold(ctx, &types.QueryGetSignatureThresholdRequest{}); err == nil {
		q["threshold"] = ThresholdSym(r.Amount.Amount)
	}
	if r, err := k.MaxMessageBodySize(ctx, &types.QueryGetMaxMessageBodySizeRequest{}); err == nil {
		q["maxBody"] = SizeSym(r.Amount.Amount)
	}
	if r, err := k.NextAvailableNonce(ctx, &types.QueryGetNextAvailableNonceRequest{}); err == nil {
		q["nextNonce"] = t.NonceSym(r.Nonce.Nonce)
	}
	q["localDomain"], q["msgVersion"], q["burnVersion"] = -1, -1, -1
	if r, err := k.LocalDomain(ctx, &types.QueryLocalDomainRequest{}); err == nil {
		q["localDomain"] = int(r.DomainId)
	}
	if r, err := k.LocalMessageVersion(ctx, &types.QueryLocalMessageVersionRequest{}); err == nil {
		q["msgVersion"] = int(r.Version)
	}
	if r, err := k.BurnMessageVersion(ctx, &types.QueryBurnMessageVersionRequest{}); err == nil {
		q["burnVersion"] = int(r.Version)
	}
	attSym := func(a types.Attester) any { e := t.AttesterSym(a.Attester); return M{"key": e.Key, "sp": e.Sp} }
	limSym := func(l types.PerMessageBurnLimit) any {
		return M{"denom": t.DenomSym(l.Denom), "amt": t.AmountSym(l.Amount.BigInt())}
	}
	pairSym := func(p types.TokenPair) any {
		return M{"d": t.DomSym(p.RemoteDomain), "t": b32m(t.BytesSym(p.RemoteToken)), "denom": t.DenomSym(p.LocalToken)}
	}
	msgrSym := func(m types.RemoteTokenMessenger) any {
		return M{"d": t.DomSym(m.DomainId), "addr": b32m(t.BytesSym(m.Address))}
	}
	usedSym := func(u types.Nonce) any { return M{"d": t.DomSym(u.SourceDomain), "n": t.NonceSym(u.Nonce)} }
	total := func(p *query.PageResponse) uint64 {
		if p == nil {
			return 0
		}
		return p.Total
	}
	next := func(p *query.PageResponse) []byte {
		if p == nil {
			return nil
		}
		return p.NextKey
	}
	q["attesters"] = walk(func(p *query.PageRequest) ([]any, []byte, uint64, error) {
		r, err := k.Attesters(ctx, roundTrip(&types.QueryAllAttestersRequest{Pagination: p}, &types.QueryAllAttestersRequest{}))
		if err != nil {
			return nil, nil, 0, err
		}
		return anys(r.Attesters, attSym), next(r.Pagination), total(r.Pagination), nil
	}, limit)
	q["limits"] = walk(func(p *query.PageRequest) ([]any, []byte, uint64, error) {
		r, err := k.PerMessageBurnLimits(ctx, roundTrip(&types.QueryAllPerMessageBurnLimitsRequest{Pagination: p}, &types.QueryAllPerMessageBurnLimitsRequest{}))
		if err != nil {
			return nil, nil, 0, err
		}
		return anys(r.BurnLimits, limSym), next(r.Pagination), total(r.Pagination), nil
	}, limit)
	q["pairs"] = walk(func(p *query.PageRequest) ([]any, []byte, uint64, error) {
		r, err := k.TokenPairs(ctx, roundTrip(&types.QueryAllTokenPairsRequest{Pagination: p}, &types.QueryAllTokenPairsRequest{}))
		if err != nil {
			return nil, nil, 0, err
		}
		return anys(r.TokenPairs, pairSym), next(r.Pagination), total(r.Pagination), nil
	}, limit)
	q["msgrs"] = walk(func(p *query.PageRequest) ([]any, []byte, uint64, error) {
		r, err := k.RemoteTokenMessengers(ctx, roundTrip(&types.QueryRemoteTokenMessengersRequest{Pagination: p}, &types.QueryRemoteTokenMessengersRequest{}))
		if err != nil {
			return nil, nil, 0, err
		}
		return anys(r.RemoteTokenMessengers, msgrSym), next(r.Pagination), total(r.Pagination), nil
	}, limit)
	q["used"] = walk(func(p *query.PageRequest) ([]any, []byte, uint64, error) {
		r, err := k.UsedNonces(ctx, roundTrip(&types.QueryAllUsedNoncesRequest{Pagination: p}, &types.QueryAllUsedNoncesRequest{}))
		if err != nil {
			return nil, nil, 0, err
		}
		return anys(r.UsedNonces, usedSym), next(r.Pagination), total(r.Pagination), nil
	}, limit)

	// single-item lookups over a fixed probe universe (present and absent keys, neighbours, crossed arguments)
	gets := []any{}
	for _, ks := range keyNames[:4] {
		for _, sp := range []string{"hex", "0x"} {
			r, err := k.Attester(ctx, roundTrip(&types.QueryGetAttesterRequest{Attester: t.AttesterString(ks, sp)}, &types.QueryGetAttesterRequest{}))
			g := M{"reg": "attesters", "key": M{"key": ks, "sp": sp}, "found": err == nil, "val": 0}
			if err == nil {
				g["val"] = attSym(r.Attester)
			}
			gets = append(gets, g)
		}
	}
	for _, ds := range []string{"MINT", "MINT_UP", "OTHER"} {
		r, err := k.PerMessageBurnLimit(ctx, roundTrip(&types.QueryGetPerMessageBurnLimitRequest{Denom: t.Denom(ds)}, &types.QueryGetPerMessageBurnLimitRequest{}))
		g := M{"reg": "limits", "key": ds, "found": err == nil, "val": 0}
		if err == nil {
			g["val"] = limSym(r.BurnLimit)
		}
		gets = append(gets, g)
	}
	for _, d := range []string{"d1", "d2", "d3"} {
		r, err := k.RemoteTokenMessenger(ctx, roundTrip(&types.QueryRemoteTokenMessengerRequest{DomainId: t.Dom(d)}, &types.QueryRemoteTokenMessengerRequest{}))
		g := M{"reg": "msgrs", "key": d, "found": err == nil, "val": 0}
		if err == nil {
			g["val"] = msgrSym(r.RemoteTokenMessenger)
		}
		gets = append(gets, g)
		for _, tk := range []string{"t1", "t2"} {
			tok := B32{32, "j", tk}
			for _, spell := range []string{"", "0x"} {
				rp, err := k.TokenPair(ctx, roundTrip(&types.QueryGetTokenPairRequest{RemoteDomain: t.Dom(d), RemoteToken: spell + hex.EncodeToString(t.Bytes(tok))}, &types.QueryGetTokenPairRequest{}))
				g := M{"reg": "pairs", "key": M{"d": d, "t": b32m(tok)}, "found": err == nil, "val": 0}
				if err == nil {
					g["val"] = pairSym(rp.Pair)
				}
				gets = append(gets, g)
			}
		}
		for n := 0; n < 3; n++ {
			ru, err := k.UsedNonce(ctx, roundTrip(&types.QueryGetUsedNonceRequest{SourceDomain: t.Dom(d), Nonce: t.Nonce(n)}, &types.QueryGetUsedNonceRequest{}))
			g := M{"reg": "used", "key": M{"d": d, "n": n}, "found": err == nil, "val": 0}
			if err == nil {
				g["val"] = usedSym(ru.Nonce)
			}
			gets = append(gets, g)
		}
	}
	q["gets"] = gets
	return q
}
