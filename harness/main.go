package main

import (
	"bufio"
	"encoding/json"
	"flag"
	"fmt"
	"hash/crc32"
	"os"
	"runtime"
	"strconv"
	"sync"

	sdk "github.com/cosmos/cosmos-sdk/types"
)

var firstHistory *int
var onlyGiven *int
var withQueries bool
var panicFaults bool

func envSeed() int64 {
	if s := os.Getenv("VERIF_SEED"); s != "" {
		if v, err := strconv.ParseInt(s, 10, 64); err == nil {
			return v
		}
	}
	return 1
}

func setPrefix(seed int64) string {
	prefix := "noble"
	if seed%2 == 0 {
		prefix = "cosmos"
	}
	cfg := sdk.GetConfig()
	cfg.SetBech32PrefixForAccount(prefix, prefix+"pub")
	return prefix
}

// parseLine accepts either a JSON object or a JSON string containing a JSON object (TLC's PrintT of ToJson).
func parseLine(line []byte) (M, bool) {
	if len(line) == 0 {
		return nil, false
	}
	switch line[0] {
	case '{':
		var m M
		if json.Unmarshal(line, &m) != nil {
			return nil, false
		}
		return m, true
	case '"':
		var s string
		if json.Unmarshal(line, &s) != nil || len(s) == 0 || s[0] != '{' {
			return nil, false
		}
		var m M
		if json.Unmarshal([]byte(s), &m) != nil {
			return nil, false
		}
		return m, true
	}
	return nil, false
}

func faultsOf(v any) []bool {
	var out []bool
	if a, ok := v.([]any); ok {
		for _, x := range a {
			out = append(out, x.(bool))
		}
	}
	return out
}

func main() {
	if len(os.Args) < 2 {
		fmt.Fprintln(os.Stderr, "usage: verif <edges|drive|sim|replay|genesis|codec|hostile|determinism> ...")
		os.Exit(2)
	}
	seed := envSeed()
	prefix := setPrefix(seed)
	cmd := os.Args[1]
	fs := flag.NewFlagSet(cmd, flag.ExitOnError)
	workers := fs.Int("workers", runtime.NumCPU(), "parallel workers")
	out := fs.String("out", "-", "output file")
	in := fs.String("in", "-", "input file")
	n := fs.Int("n", 100, "number of histories / cases")
	depth := fs.Int("depth", 50, "history length")
	iavl := fs.Bool("iavl", false, "IAVL-backed stores with a commit per transaction")
	first := fs.Int("first", 1, "first history number (replays)")
	onlyGiven = fs.Int("only", 0, "determinism: only this given history (replays)")
	fs.BoolVar(&panicFaults, "panicfaults", false, "a refused ledger call panics instead of returning an error")
	fs.BoolVar(&withQueries, "q", false, "also observe the state through all queries after every transaction")
	firstHistory = first
	fs.BoolVar(&MixedCaseMint, "mixed", false, "chain configuration with a mixed-case minting denom (uUSDC)")
	fs.Parse(os.Args[2:])
	tab := NewSymTab(seed, ModuleAddress, prefix)
	if cmd == "genesis" {
		// the documented default of an absent next-nonce is the CONCRETE value 0: abstract nonce 0 must be that value
		tab.NonceBase = 0
	}
	var rd *os.File = os.Stdin
	if *in != "-" {
		f, err := os.Open(*in)
		if err != nil {
			panic(err)
		}
		rd = f
	}
	var wr *os.File = os.Stdout
	if *out != "-" {
		f, err := os.Create(*out)
		if err != nil {
			panic(err)
		}
		wr = f
	}
	bw := bufio.NewWriterSize(wr, 1<<20)
	defer bw.Flush()
	switch cmd {
	case "edges", "hist":
		cmdEdges(tab, rd, bw, *workers)
	case "drive":
		cmdDrive(tab, bw, *workers, *n, *depth, seed)
	case "sim":
		cmdSim(tab, rd, bw, *workers, *iavl)
	case "replay":
		cmdReplay(tab, rd, bw)
	default:
		if !extraCommand(cmd, tab, rd, bw, *workers, *n, *depth, seed) {
			fmt.Fprintln(os.Stderr, "unknown command", cmd)
			os.Exit(2)
		}
	}
}

// runEvent executes one abstract (msg, faults) on the instance and returns the observed event record.
func runEvent(inst *Instance, pre M, msg M, faults []bool) M {
	if gets(msg, "type") == "Batch" {
		return runBatchEvent(inst, msg, faults)
	}
	if gets(msg, "type") == "Simulate" {
		// execute on a branch that is always discarded; report the outcome under the Simulate message
		inst.discard = true
		ev := runEvent(inst, pre, getm(msg, "tx"), faults)
		inst.discard = false
		ev["msg"] = msg
		obs := getm(ev, "obs")
		delete(obs, "inner")
		obs["vas"] = "na"
		return ev
	}
	typeURL, wire := inst.Concretise(msg)
	vas := inst.DirectVerify(pre, msg)
	r := inst.RunTx(typeURL, wire, faults)
	post, junk := inst.ProjectState()
	used := make([]any, 0, len(r.Calls))
	for i := range r.Calls {
		ok := true
		if i < len(faults) {
			ok = faults[i]
		}
		used = append(used, ok)
	}
	obs := M{"res": r.Res, "resp": inst.ProjectResp(gets(msg, "type"), r), "calls": inst.ProjectCalls(r.Calls),
		"evs": inst.ProjectEvents(r.Events), "post": post, "junk": toAny(junk), "writes": inst.ProjectWrites(r.Writes), "vas": vas}
	if withQueries {
		// page size 1..4, a function of the message only (so that a replay asks the same pages)
		mb, _ := json.Marshal(msg)
		obs["q"] = inst.QueryView(uint64(1 + crc32.ChecksumIEEE(mb)%4))
	}
	// C12 ("pausing stops exactly the flows it names"): when a transaction fails on a paused chain, the same
	// transaction is also given to an identical chain that is not paused -- the pause may be blamed only for what
	// succeeds there
	if r.Res != "ok" && pre != nil && (pre["pausedBM"] == true || pre["pausedSR"] == true) {
		obs["cf"] = counterfactualUnpaused(inst, pre, typeURL, wire, faults)
	}
	ev := M{"msg": msg, "faults": used, "obs": obs}
	if r.Err != "" {
		ev["note"] = r.Err
	}
	if r.Panic != "" {
		ev["note"] = "PANIC: " + r.Panic
	}
	return ev
}

func usedFaults(calls []LedgerCall, faults []bool, from int) []any {
	out := make([]any, 0, len(calls))
	for i := range calls {
		ok := true
		if from+i < len(faults) {
			ok = faults[from+i]
		}
		out = append(out, ok)
	}
	return out
}

func runBatchEvent(inst *Instance, msg M, faults []bool) M {
	var txs [][2]any
	msgs := arr(msg, "msgs")
	for _, m := range msgs {
		u, w := inst.Concretise(m.(map[string]any))
		txs = append(txs, [2]any{u, w})
	}
	r, inner := inst.RunBatch(txs, faults)
	post, junk := inst.ProjectState()
	var innerObs []any
	nc := 0
	for i, one := range inner {
		im := msgs[i].(map[string]any)
		evs := []any{}
		if one.Res == "ok" {
			evs = inst.ProjectEvents(one.Events)
		}
		innerObs = append(innerObs, M{"msg": im, "faults": usedFaults(one.Calls, faults, nc), "res": one.Res,
			"resp": inst.ProjectResp(gets(im, "type"), one), "calls": inst.ProjectCalls(one.Calls), "evs": evs})
		nc += len(one.Calls)
	}
	if innerObs == nil {
		innerObs = []any{}
	}
	obs := M{"res": r.Res, "resp": M{"nonce": -1}, "calls": inst.ProjectCalls(r.Calls), "evs": inst.ProjectEvents(r.Events),
		"post": post, "junk": toAny(junk), "writes": inst.ProjectWrites(r.Writes), "vas": "na", "inner": innerObs}
	ev := M{"msg": msg, "faults": usedFaults(r.Calls, faults, 0), "obs": obs}
	if r.Err != "" {
		ev["note"] = r.Err
	}
	if r.Panic != "" {
		ev["note"] = "PANIC: " + r.Panic
	}
	return ev
}

func toAny(s []string) []any {
	out := make([]any, 0, len(s))
	for _, x := range s {
		out = append(out, x)
	}
	return out
}

// cmdEdges: every input line is {pre, msg, faults}; materialise pre, run msg, emit a one-event history.
func cmdEdges(tab *SymTab, rd *os.File, bw *bufio.Writer, workers int) {
	type job struct {
		id   int
		edge M
	}
	jobs := make(chan job, 1024)
	results := make(chan []byte, 1024)
	var wg sync.WaitGroup
	for w := 0; w < workers; w++ {
		wg.Add(1)
		go func() {
			defer wg.Done()
			inst := NewInstance(tab, false)
			for j := range jobs {
				inst.Reset()
				// accepted inputs: {pre, msg, faults} (one edge) or {init, events:[{msg, faults}...]} (a history)
				var pre M
				var evs []any
				if j.edge["pre"] != nil {
					pre = getm(j.edge, "pre")
					evs = []any{map[string]any{"msg": j.edge["msg"], "faults": j.edge["faults"]}}
				} else {
					pre = getm(j.edge, "init")
					evs = arr(j.edge, "events")
				}
				if id, ok := j.edge["id"]; ok {
					j.id = seti(id)
				}
				inst.Materialise(pre)
				init, junk0 := inst.ProjectState()
				cur := init
				var outEvs []any
				for _, e := range evs {
					em := e.(map[string]any)
					ev := runEvent(inst, cur, getm(em, "msg"), faultsOf(em["faults"]))
					outEvs = append(outEvs, ev)
					cur = getm(getm(ev, "obs"), "post")
				}
				h := M{"id": j.id, "init": init, "initok": len(junk0) == 0 && sameState(pre, init), "events": outEvs}
				if !h["initok"].(bool) {
					// the chain initialised from the intended state does not hold that state: report both,
					// Trace.tla judges the initialisation step itself
					h["pre"] = fullState(pre, init)
					h["junk0"] = toAny(junk0)
				}
				bz, err := json.Marshal(h)
				if err != nil {
					panic(err)
				}
				results <- bz
			}
		}()
	}
	var wwg sync.WaitGroup
	wwg.Add(1)
	go func() {
		defer wwg.Done()
		for bz := range results {
			bw.Write(bz)
			bw.WriteByte('\n')
		}
	}()
	sc := bufio.NewScanner(rd)
	sc.Buffer(make([]byte, 1<<20), 1<<26)
	id := 0
	for sc.Scan() {
		m, ok := parseLine(sc.Bytes())
		if !ok || (m["pre"] == nil && m["init"] == nil) {
			continue
		}
		id++
		jobs <- job{id, m}
	}
	close(jobs)
	wg.Wait()
	close(results)
	wwg.Wait()
	fmt.Fprintf(os.Stderr, "edges: executed %d\n", id)
}

// counterfactualUnpaused runs the transaction on a fresh chain materialised from the abstract pre-state with both
// pause flags cleared and returns its result.
func counterfactualUnpaused(inst *Instance, pre M, typeURL string, wire []byte, faults []bool) (res string) {
	defer func() {
		if r := recover(); r != nil {
			res = "na"
		}
	}()
	s := jsonRoundTrip(pre)
	s["pausedBM"], s["pausedSR"] = false, false
	cf := NewInstance(inst.T, false)
	cf.C = inst.C // same codec tables (raw bodies / short wires are registered there)
	cf.Materialise(s)
	return cf.RunTx(typeURL, wire, faults).Res
}
