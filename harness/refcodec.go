package main

// Reference codec for the CCTP Message and BurnMessage formats, written from the CCTP technical
// reference (big-endian, fixed offsets) -- deliberately NOT using x/cctp/types.
//
//   Message:     version u32 | sourceDomain u32 | destinationDomain u32 | nonce u64 |
//                sender 32 | recipient 32 | destinationCaller 32 | body ...            (header 116)
//   BurnMessage: version u32 | burnToken 32 | mintRecipient 32 | amount u256 | messageSender 32   (132)

import (
	"crypto/sha256"
	"encoding/binary"
	"encoding/hex"
	"math/big"
)

type M = map[string]any

type RefMessage struct {
	Version, Src, Dst         uint32
	Nonce                     uint64
	Sender, Recipient, Caller []byte
	Body                      []byte
}

func RefEncodeMessage(m RefMessage) []byte {
	out := make([]byte, 0, 116+len(m.Body))
	out = binary.BigEndian.AppendUint32(out, m.Version)
	out = binary.BigEndian.AppendUint32(out, m.Src)
	out = binary.BigEndian.AppendUint32(out, m.Dst)
	out = binary.BigEndian.AppendUint64(out, m.Nonce)
	out = append(out, m.Sender...)
	out = append(out, m.Recipient...)
	out = append(out, m.Caller...)
	out = append(out, m.Body...)
	return out
}

func RefDecodeMessage(bz []byte) (RefMessage, bool) {
	if len(bz) < 116 {
		return RefMessage{}, false
	}
	return RefMessage{
		Version: binary.BigEndian.Uint32(bz[0:4]), Src: binary.BigEndian.Uint32(bz[4:8]), Dst: binary.BigEndian.Uint32(bz[8:12]),
		Nonce: binary.BigEndian.Uint64(bz[12:20]), Sender: bz[20:52], Recipient: bz[52:84], Caller: bz[84:116], Body: bz[116:],
	}, true
}

type RefBurn struct {
	Version                  uint32
	Token, Recipient, Sender []byte
	Amount                   *big.Int
}

func RefEncodeBurn(b RefBurn) []byte {
	out := make([]byte, 0, 132)
	out = binary.BigEndian.AppendUint32(out, b.Version)
	out = append(out, b.Token...)
	out = append(out, b.Recipient...)
	amt := make([]byte, 32)
	b.Amount.FillBytes(amt)
	out = append(out, amt...)
	out = append(out, b.Sender...)
	return out
}

func RefDecodeBurn(bz []byte) (RefBurn, bool) {
	if len(bz) != 132 {
		return RefBurn{}, false
	}
	return RefBurn{Version: binary.BigEndian.Uint32(bz[0:4]), Token: bz[4:36], Recipient: bz[36:68],
		Amount: new(big.Int).SetBytes(bz[68:100]), Sender: bz[100:132]}, true
}

// ---- abstract <-> concrete wire messages -------------------------------------------------

type Codec struct {
	T        *SymTab
	rawRev   map[string][2]int
	shortRev map[string][2]int
}

func NewCodec(t *SymTab) *Codec {
	return &Codec{T: t, rawRev: map[string][2]int{}, shortRev: map[string][2]int{}}
}

func hkey(b []byte) string { h := sha256.Sum256(b); return hex.EncodeToString(h[:]) }

func geti(m M, k string) int {
	switch v := m[k].(type) {
	case float64:
		return int(v)
	case int:
		return v
	}
	panic("missing int field " + k)
}
func gets(m M, k string) string {
	if s, ok := m[k].(string); ok {
		return s
	}
	panic("missing string field " + k)
}
func getm(m M, k string) M {
	if s, ok := m[k].(map[string]any); ok {
		return s
	}
	panic("missing record field " + k)
}
func getb(m M, k string) B32 {
	r := getm(m, k)
	return B32{N: geti(r, "n"), Hi: gets(r, "hi"), Lo: gets(r, "lo")}
}
func b32m(b B32) M { return M{"n": b.N, "hi": b.Hi, "lo": b.Lo} }

func (c *Codec) BodyBytes(b M) []byte {
	switch gets(b, "k") {
	case "raw":
		id, n := geti(b, "id"), geti(b, "len")
		bz := c.T.RawBody(id, n)
		c.rawRev[hkey(bz)] = [2]int{id, n}
		return bz
	case "burn":
		return RefEncodeBurn(RefBurn{Version: uint32(geti(b, "ver")), Token: c.T.Bytes(getb(b, "tok")),
			Recipient: c.T.Bytes(getb(b, "rcpt")), Amount: c.T.Amount(geti(b, "amt")), Sender: c.T.Bytes(getb(b, "sender"))})
	}
	panic("unknown body kind")
}

func (c *Codec) BodySym(bz []byte) M {
	if r, ok := c.rawRev[hkey(bz)]; ok {
		return M{"k": "raw", "id": r[0], "len": r[1]}
	}
	if b, ok := RefDecodeBurn(bz); ok {
		return M{"k": "burn", "ver": int(b.Version), "tok": b32m(c.T.BytesSym(b.Token)), "rcpt": b32m(c.T.BytesSym(b.Recipient)),
			"amt": c.T.AmountSym(b.Amount), "sender": b32m(c.T.BytesSym(b.Sender))}
	}
	return M{"k": "raw", "id": -1, "len": len(bz)}
}

func (c *Codec) WireBytes(w M) []byte {
	if gets(w, "k") == "short" {
		id, n := geti(w, "id"), geti(w, "len")
		bz := prf(c.T.Seed, "short:"+string(rune('0'+id)), n)
		c.shortRev[hkey(bz)] = [2]int{id, n}
		return bz
	}
	return RefEncodeMessage(RefMessage{Version: uint32(geti(w, "ver")), Src: c.T.Dom(gets(w, "src")), Dst: c.T.Dom(gets(w, "dst")),
		Nonce: c.T.Nonce(geti(w, "nonce")), Sender: c.T.Bytes(getb(w, "sender")), Recipient: c.T.Bytes(getb(w, "rcpt")),
		Caller: c.T.Bytes(getb(w, "caller")), Body: c.BodyBytes(getm(w, "body"))})
}

func (c *Codec) WireSym(bz []byte) M {
	m, ok := RefDecodeMessage(bz)
	if !ok {
		if r, ok := c.shortRev[hkey(bz)]; ok {
			return M{"k": "short", "id": r[0], "len": r[1]}
		}
		return M{"k": "short", "id": -1, "len": len(bz)}
	}
	return M{"k": "msg", "ver": int(m.Version), "src": c.T.DomSym(m.Src), "dst": c.T.DomSym(m.Dst), "nonce": c.T.NonceSym(m.Nonce),
		"sender": b32m(c.T.BytesSym(m.Sender)), "rcpt": b32m(c.T.BytesSym(m.Recipient)), "caller": b32m(c.T.BytesSym(m.Caller)),
		"body": c.BodySym(m.Body)}
}
