package main

// Randomised history driver (conformance B).  Generates long histories over universes larger than
// the bounded models (8 accounts, 8 attester keys, 5 domains, registries with many entries,
// messages built from the OBSERVED outbox), executes them on the real keeper and writes the
// observed histories for Trace.tla.  It decides nothing: it only generates, executes and records.

import (
	"bufio"
	"bytes"
	"encoding/json"
	"fmt"
	"math/rand"
	"os"
	"sort"
	"sync"
)

var accts = []string{"a1", "a2", "a3", "a4", "a5", "a6", "a7", "a8"}
var keyNames = []string{"k1", "k2", "k3", "k4", "k5", "k6", "k7", "k8"}
var goodEncs = []string{"v01", "v2728", "hs01", "hs2728"}

type gen struct {
	r      *rand.Rand
	st     M   // current projected state
	outbox []M // abstract wire messages observed in MessageSent events
	inbox  []M // receive messages that were accepted (for replays)
	retry  []M // receive messages that were rejected (users retry them later)
	again  M   // the transaction that was just rejected (users often resubmit at once)
	queue  []M // a scripted scenario in progress (pause / transfer / unpause / same transfer again ...)
}

func (g *gen) pick(xs []string) string { return xs[g.r.Intn(len(xs))] }
func (g *gen) p(x float64) bool        { return g.r.Float64() < x }

func pad(a string) M  { return b32m(B32{32, "z", a}) }
func junk(a string) M { return b32m(B32{32, "j", a}) }

var zero32 = b32m(B32{32, "z", "zero"})

func (g *gen) addr32() M {
	switch x := g.r.Intn(20); {
	case x < 8:
		return junk(g.pick([]string{"x1", "x2", "r1", "r2", "r3"}))
	case x < 14:
		return pad(g.pick(accts))
	case x < 16:
		return junk(g.pick(accts))
	case x < 17:
		return zero32
	case x < 18:
		return b32m(B32{[]int{0, 20, 31, 33, 64, 96}[g.r.Intn(6)], "-", g.pick([]string{"zero", "junk"})})
	default:
		return pad("MODULE")
	}
}
func (g *gen) pick3(a, b, c int) int { return []int{a, b, c}[g.r.Intn(3)] }

func (g *gen) domain() string { return g.pick([]string{"d1", "d2", "d3", "d4", "d5"}) }
func (g *gen) token() M       { return junk(g.pick([]string{"t1", "t2", "t3"})) }
func (g *gen) msgrAddr() M    { return junk(g.pick([]string{"m1", "m2", "m3"})) }

func (g *gen) holder(slot string) string {
	if g.p(0.8) {
		if s, ok := g.st[slot].(string); ok && len(s) > 0 && s[0] != '?' && s != "none" {
			return s
		}
	}
	return g.pick(accts)
}

func (g *gen) enabledKeys() []string {
	seen := map[string]bool{}
	var out []string
	for _, a := range arr(g.st, "attesters") {
		k := gets(a.(map[string]any), "key")
		if len(k) == 2 && k[0] == 'k' && !seen[k] {
			seen[k] = true
			out = append(out, k)
		}
	}
	sort.Strings(out)
	return out
}

// attestation for the current state: mostly honest, sometimes adversarial
func (g *gen) att() M {
	keys := g.enabledKeys()
	t := geti(g.st, "threshold")
	var sigs []any
	if t >= 1 && t <= len(keys) {
		idx := g.r.Perm(len(keys))[:t]
		sort.Ints(idx)
		enc := "v01"
		for _, i := range idx {
			if g.p(0.3) {
				enc = g.pick(goodEncs)
			}
			sigs = append(sigs, M{"k": keys[i], "over": "this", "enc": enc})
		}
	}
	padv := 0
	if g.p(0.25) && len(sigs) > 0 { // one adversarial deviation
		i := g.r.Intn(len(sigs))
		switch g.r.Intn(8) {
		case 0:
			sigs = append(sigs[:i], sigs[i+1:]...)
		case 1:
			sigs = append(sigs, M{"k": g.pick(keyNames), "over": "this", "enc": "v01"})
		case 2:
			j := g.r.Intn(len(sigs))
			sigs[i], sigs[j] = sigs[j], sigs[i]
		case 3:
			d := M{"k": sigs[i].(M)["k"], "over": "this", "enc": "hs01"}
			sigs = append(sigs[:i+1], append([]any{d}, sigs[i+1:]...)...)
		case 4:
			sigs[i].(M)["enc"] = g.pick([]string{"badv", "zero"})
		case 5:
			sigs[i].(M)["over"] = "other"
		case 6:
			sigs[i].(M)["k"] = g.pick(keyNames)
		case 7:
			padv = g.pick3(-1, 1, 1)
		}
	}
	if sigs == nil {
		sigs = []any{}
	}
	return M{"sigs": sigs, "pad": padv}
}

func (g *gen) rawBody() M {
	n := []int{0, 1, 10, 20, 131, 132, 133, 200, 201, 500}[g.r.Intn(10)]
	id := 1 + g.r.Intn(3)
	if n == 0 {
		id = 1 // the empty body has one spelling
	}
	return M{"k": "raw", "id": id, "len": n}
}

func (g *gen) usedNonce(d string) (int, bool) {
	var ns []int
	for _, u := range arr(g.st, "used") {
		um := u.(map[string]any)
		if gets(um, "d") == d {
			ns = append(ns, geti(um, "n"))
		}
	}
	if len(ns) == 0 {
		return 0, false
	}
	return ns[g.r.Intn(len(ns))], true
}

func (g *gen) inboundWire(from string) M {
	src := g.domain()
	if g.p(0.05) {
		src = "NOBLE"
	}
	nonce := g.r.Intn(50) // (47 = 0x2f, the key separator)
	if g.p(0.12) {        // the same low bits as a small nonce, 2^32 or 2^63 higher
		nonce = []int{1000, 2000}[g.r.Intn(2)] + g.r.Intn(8)
	}
	if g.p(0.25) {
		if n, ok := g.usedNonce(src); ok {
			nonce = n
		}
	}
	dst := "NOBLE"
	if g.p(0.05) {
		dst = g.domain()
	}
	caller := zero32
	switch x := g.r.Intn(10); {
	case x < 3:
		caller = pad(from)
	case x < 4:
		caller = pad(g.pick(accts))
	case x < 5:
		caller = junk(from)
	}
	ver := 0
	if g.p(0.04) {
		ver = 1
	}
	sender := g.msgrAddr()
	for _, x := range arr(g.st, "msgrs") {
		xm := x.(map[string]any)
		if gets(xm, "d") == src && g.p(0.85) {
			sender = getm(xm, "addr")
			if g.p(0.08) { // same low 20 bytes, different high 12 bytes
				sender = M{"n": 32, "hi": "z", "lo": gets(sender, "lo")}
			}
		}
	}
	if g.p(0.6) { // burn message to the module
		tok := g.token()
		for _, x := range arr(g.st, "pairs") {
			xm := x.(map[string]any)
			if gets(xm, "d") == src && g.p(0.7) {
				tok = getm(xm, "t")
			}
		}
		bver := 0
		if g.p(0.04) {
			bver = 2
		}
		rc := pad(g.pick(append(append([]string{}, accts...), "x1", "x2", "zero")))
		if g.p(0.3) {
			rc = junk(g.pick(accts))
		}
		body := M{"k": "burn", "ver": bver, "tok": tok, "rcpt": rc, "amt": g.r.Intn(6), "sender": pad(g.pick([]string{"x1", "x2", "a1"}))}
		rcpt := pad("MODULE")
		if g.p(0.05) {
			rcpt = junk("MODULE")
		}
		return M{"k": "msg", "ver": ver, "src": src, "dst": dst, "nonce": nonce, "sender": sender, "rcpt": rcpt, "caller": caller, "body": body}
	}
	if g.p(0.04) {
		return M{"k": "short", "len": []int{0, 1, 60, 115}[g.r.Intn(4)], "id": 1}
	}
	rcpt := junk(g.pick([]string{"r1", "r2"}))
	if g.p(0.15) {
		rcpt = pad("MODULE")
	}
	return M{"k": "msg", "ver": ver, "src": src, "dst": dst, "nonce": nonce, "sender": sender, "rcpt": rcpt, "caller": caller, "body": g.rawBody()}
}

func (g *gen) origWire(from string) M {
	if len(g.outbox) > 0 && g.p(0.85) {
		return g.outbox[g.r.Intn(len(g.outbox))]
	}
	// synthetic originals
	sender := pad(from)
	if g.p(0.4) {
		sender = pad("MODULE")
	}
	src := "NOBLE"
	if g.p(0.2) {
		src = g.domain()
	}
	var body M = g.rawBody()
	if g.p(0.5) {
		body = M{"k": "burn", "ver": 0, "tok": b32m(B32{32, "k", "MINT"}), "rcpt": junk("x1"), "amt": 1 + g.r.Intn(3), "sender": pad(g.pick([]string{from, "a1", "a2"}))}
	}
	return M{"k": "msg", "ver": 0, "src": src, "dst": g.domain(), "nonce": g.r.Intn(10), "sender": sender, "rcpt": g.msgrAddr(), "caller": zero32, "body": body}
}

func (g *gen) attEntry() M {
	switch x := g.r.Intn(20); {
	case x < 14:
		return M{"key": g.pick(keyNames), "sp": "hex"}
	case x < 17:
		return M{"key": g.pick(keyNames), "sp": g.pick([]string{"0x", "UP", "0X", "odd", "0xodd"})}
	case x < 18:
		return M{"key": g.pick([]string{"junk1", "junk2"}), "sp": "hex"}
	default:
		return M{"key": "none", "sp": g.pick([]string{"empty", "0xonly", "nothex"})}
	}
}

// depDst prefers a destination domain that has a token messenger
func (g *gen) depDst() string {
	if ms := arr(g.st, "msgrs"); len(ms) > 0 && g.p(0.85) {
		return gets(ms[g.r.Intn(len(ms))].(map[string]any), "d")
	}
	return g.domain()
}

// richUser prefers a depositor with funds
func (g *gen) richUser() string {
	bal := getm(g.st, "bal")
	for i := 0; i < 4; i++ {
		a := g.pick(accts)
		if seti(bal[a]) > 0 {
			return a
		}
	}
	return g.pick(accts)
}

func (g *gen) amount() int {
	switch x := g.r.Intn(20); {
	case x < 1:
		return AbsentAmt
	case x < 2:
		return -1
	case x < 3:
		return 0
	}
	return 1 + g.r.Intn(3)
}

func (g *gen) newHolder() string {
	if g.p(0.1) {
		return g.pick([]string{"GARBAGE", "EMPTY", "BAD_CHECKSUM", "WRONG_PREFIX"})
	}
	return g.pick(accts)
}

// next returns the next transaction: usually one message, sometimes several messages in one transaction
// honestAtt: what the attestation service would sign in the current state (no adversarial deviation)
func (g *gen) honestAtt() M {
	keys := g.enabledKeys()
	t := geti(g.st, "threshold")
	sigs := []any{}
	if t >= 1 && t <= len(keys) {
		for _, k := range keys[:t] {
			sigs = append(sigs, M{"k": k, "over": "this", "enc": "v01"})
		}
	}
	return M{"sigs": sigs, "pad": 0}
}

// scenario: a transfer that is blocked by a pause and submitted again, unchanged, after the unpause
func (g *gen) scenario() []M {
	var d string
	var tok, sender M
	for _, x := range arr(g.st, "pairs") {
		xm := x.(map[string]any)
		for _, y := range arr(g.st, "msgrs") {
			ym := y.(map[string]any)
			if gets(xm, "d") == gets(ym, "d") && gets(xm, "denom") != "OTHER" {
				d, tok, sender = gets(xm, "d"), getm(xm, "t"), getm(ym, "addr")
			}
		}
	}
	pauser, _ := g.st["pauser"].(string)
	if d == "" || len(pauser) != 2 {
		return nil
	}
	user := g.pick(accts)
	wire := M{"k": "msg", "ver": 0, "src": d, "dst": "NOBLE", "nonce": 100 + g.r.Intn(400), "sender": sender, "rcpt": pad("MODULE"), "caller": zero32,
		"body": M{"k": "burn", "ver": 0, "tok": tok, "rcpt": pad(g.pick(accts)), "amt": 1 + g.r.Intn(3), "sender": pad("x2")}}
	recv := func() M { return M{"type": "ReceiveMessage", "from": user, "wire": wire, "att": g.honestAtt()} }
	flag := g.pick([]string{"BurningAndMinting", "SendingAndReceivingMessages"})
	failing := M{"type": "AcceptOwner", "from": "x1"}
	switch g.r.Intn(3) {
	case 0: // blocked by a pause, submitted again unchanged after the unpause
		return []M{{"type": "Pause" + flag, "from": pauser}, recv(), {"type": "Unpause" + flag, "from": pauser}, recv(), recv()}
	case 1: // an unpause that is only simulated, or sits in a transaction that fails, must not lift the pause
		return []M{{"type": "Pause" + flag, "from": pauser}, {"type": "Simulate", "tx": M{"type": "Unpause" + flag, "from": pauser}}, recv(),
			{"type": "Batch", "msgs": []any{M{"type": "Unpause" + flag, "from": pauser}, failing}}, recv(),
			{"type": "Unpause" + flag, "from": pauser}, recv()}
	default: // a pause that is only simulated, or sits in a transaction that fails, must not block anything
		return []M{{"type": "Unpause" + flag, "from": pauser}, {"type": "Simulate", "tx": M{"type": "Pause" + flag, "from": pauser}}, recv(),
			{"type": "Batch", "msgs": []any{M{"type": "Pause" + flag, "from": pauser}, failing}}}
	}
}

// roleScenario: a role change that is only simulated, or sits in a transaction that fails, appoints nobody
func (g *gen) roleScenario() []M {
	owner, _ := g.st["owner"].(string)
	if len(owner) != 2 {
		return nil
	}
	x := g.pick(accts)
	failing := M{"type": "AcceptOwner", "from": "x1"}
	acts := [][2]M{
		{{"type": "UpdatePauser", "from": owner, "new": x}, {"type": "PauseBurningAndMinting", "from": x}},
		{{"type": "UpdateAttesterManager", "from": owner, "new": x}, {"type": "UpdateSignatureThreshold", "from": x, "amt": 1 + g.r.Intn(3)}},
		{{"type": "UpdateTokenController", "from": owner, "new": x}, {"type": "SetMaxBurnAmountPerMessage", "from": x, "denom": "MINT", "amt": 1 + g.r.Intn(4)}},
		{{"type": "UpdateOwner", "from": owner, "new": x}, {"type": "AcceptOwner", "from": x}},
	}
	a := acts[g.r.Intn(len(acts))]
	if g.p(0.5) {
		return []M{{"type": "Simulate", "tx": a[0]}, a[1], {"type": "UpdateMaxMessageBodySize", "from": owner, "size": 200}}
	}
	return []M{{"type": "Batch", "msgs": []any{a[0], failing}}, a[1], {"type": "UpdateMaxMessageBodySize", "from": owner, "size": 200}}
}

func (g *gen) next() (M, []bool) {
	if len(g.queue) > 0 {
		m := g.queue[0]
		g.queue = g.queue[1:]
		if gets(m, "type") == "ReceiveMessage" {
			m["att"] = g.honestAtt()
		}
		return jsonRoundTrip(m), []bool{true, true, true}
	}
	if g.p(0.03) {
		sc := g.scenario()
		if g.p(0.4) {
			sc = g.roleScenario()
		}
		if sc != nil {
			g.queue = sc[1:]
			return sc[0], []bool{true, true, true}
		}
	}
	if g.again != nil {
		m := g.again
		g.again = nil
		if g.p(0.5) { // immediate resubmission of a rejected transfer, this time with a cooperative ledger
			return m, []bool{true, true, true}
		}
	}
	if g.p(0.05) { // gas simulation / CheckTx of the next transaction: executed, never committed
		m, f := g.next1()
		if g.p(0.3) {
			m = M{"type": "UpdatePauser", "from": g.holder("owner"), "new": g.pick(accts)}
		}
		return M{"type": "Simulate", "tx": m}, f
	}
	if g.p(0.07) {
		k := 2 + g.r.Intn(2)
		var ms []any
		for i := 0; i < k; i++ {
			m, _ := g.next1()
			ms = append(ms, m)
		}
		if g.p(0.5) { // a last message that is refused discards the effects of the earlier ones
			ms = append(ms, M{"type": "AcceptOwner", "from": g.pick(accts)})
		}
		return M{"type": "Batch", "msgs": ms}, []bool{g.r.Intn(12) != 0, g.r.Intn(12) != 0, g.r.Intn(12) != 0, true, true, true}
	}
	return g.next1()
}

func (g *gen) next1() (M, []bool) {
	user := g.pick(accts)
	var m M
	switch x := g.r.Intn(100); {
	case x < 8:
		m = M{"type": "SendMessage", "from": user, "dst": g.pick([]string{"d1", "d2", "d3", "NOBLE"}), "rcpt": g.addr32(), "body": g.rawBody()}
	case x < 12:
		m = M{"type": "SendMessageWithCaller", "from": user, "dst": g.domain(), "rcpt": g.addr32(), "body": g.rawBody(), "caller": g.addr32()}
	case x < 24:
		m = M{"type": "DepositForBurn", "from": g.richUser(), "amt": g.amount(), "dst": g.depDst(), "mrcpt": g.addr32(),
			"tok": g.pick([]string{"MINT", "MINT", "MINT", "MINT", "MINT", "MINT", "MINT_UP", "MINT_FOLD", "OTHER"})}
	case x < 30:
		m = M{"type": "DepositForBurnWithCaller", "from": g.richUser(), "amt": g.amount(), "dst": g.depDst(), "mrcpt": g.addr32(),
			"tok": g.pick([]string{"MINT", "MINT", "MINT", "MINT", "MINT", "MINT_UP", "OTHER"}), "caller": g.addr32()}
	case x < 46:
		if len(g.inbox) > 0 && g.p(0.15) { // literal replay of an accepted message
			m = g.inbox[g.r.Intn(len(g.inbox))]
			m = M{"type": "ReceiveMessage", "from": user, "wire": m["wire"], "att": g.att()}
		} else if len(g.retry) > 0 && g.p(0.2) { // retry of a rejected message, freshly attested
			m = g.retry[g.r.Intn(len(g.retry))]
			m = M{"type": "ReceiveMessage", "from": gets(m, "from"), "wire": m["wire"], "att": g.att()}
		} else {
			m = M{"type": "ReceiveMessage", "from": user, "wire": g.inboundWire(user), "att": g.att()}
		}
	case x < 53:
		o := g.origWire(user)
		from := user
		if gets(o, "k") == "msg" && g.p(0.8) { // the original's sender, if it is an account
			if lo := gets(getm(o, "sender"), "lo"); len(lo) == 2 && lo[0] == 'a' {
				from = lo
			}
		}
		nc := g.addr32()
		if g.p(0.5) {
			nc = zero32
		}
		m = M{"type": "ReplaceMessage", "from": from, "orig": o, "att": g.att(), "body": g.rawBody(), "caller": nc}
	case x < 60:
		o := g.origWire(user)
		from := user
		if gets(o, "k") == "msg" && gets(getm(o, "body"), "k") == "burn" && g.p(0.8) {
			if lo := gets(getm(getm(o, "body"), "sender"), "lo"); len(lo) == 2 && lo[0] == 'a' {
				from = lo
			}
		}
		nc := g.addr32()
		if g.p(0.5) {
			nc = zero32
		}
		m = M{"type": "ReplaceDepositForBurn", "from": from, "orig": o, "att": g.att(), "mrcpt": g.addr32(), "caller": nc}
	case x < 62:
		m = M{"type": "UpdateOwner", "from": g.holder("owner"), "new": g.newHolder()}
	case x < 64:
		m = M{"type": "AcceptOwner", "from": g.holder("pending")}
	case x < 66:
		m = M{"type": g.pick([]string{"UpdateAttesterManager", "UpdatePauser", "UpdateTokenController"}), "from": g.holder("owner"), "new": g.newHolder()}
	case x < 68:
		m = M{"type": "UpdateMaxMessageBodySize", "from": g.holder("owner"), "size": []int{0, 131, 132, 133, 200, 8000, 3000000, 3000131}[g.r.Intn(8)]}
	case x < 72:
		a := g.msgrAddr()
		if g.p(0.1) {
			a = g.addr32()
		}
		m = M{"type": "AddRemoteTokenMessenger", "from": g.holder("owner"), "d": g.domain(), "addr": a}
	case x < 74:
		m = M{"type": "RemoveRemoteTokenMessenger", "from": g.holder("owner"), "d": g.domain()}
	case x < 79:
		m = M{"type": "EnableAttester", "from": g.holder("attMgr"), "att": g.attEntry()}
	case x < 82:
		e := g.attEntry()
		if as := arr(g.st, "attesters"); len(as) > 0 && g.p(0.7) {
			e = as[g.r.Intn(len(as))].(map[string]any)
		}
		m = M{"type": "DisableAttester", "from": g.holder("attMgr"), "att": e}
	case x < 85:
		m = M{"type": "UpdateSignatureThreshold", "from": g.holder("attMgr"), "amt": g.r.Intn(6)}
		if g.p(0.1) {
			m["amt"] = g.pick2([]int{1000000, 1000001, 2000000, 1999999}) // around 2^31 and 2^32
		}
	case x < 89:
		m = M{"type": g.pick([]string{"PauseBurningAndMinting", "UnpauseBurningAndMinting", "PauseSendingAndReceivingMessages",
			"UnpauseSendingAndReceivingMessages", "UnpauseBurningAndMinting", "UnpauseSendingAndReceivingMessages"}), "from": g.holder("pauser")}
	case x < 94:
		m = M{"type": "LinkTokenPair", "from": g.holder("tokCtl"), "d": g.domain(), "tok": g.token(),
			"denom": g.pick([]string{"MINT", "MINT", "MINT", "MINT_UP", "OTHER"})}
	case x < 96:
		m = M{"type": "UnlinkTokenPair", "from": g.holder("tokCtl"), "d": g.domain(), "tok": g.token()}
	default:
		m = M{"type": "SetMaxBurnAmountPerMessage", "from": g.holder("tokCtl"), "denom": g.pick([]string{"MINT", "MINT_UP", "OTHER"}), "amt": g.r.Intn(7) - 1}
	}
	faults := []bool{g.r.Intn(12) != 0, g.r.Intn(12) != 0}
	return m, faults
}

func (g *gen) genesis() M {
	bal := M{"MODULE": 0, "zero": 0, "x1": 0, "x2": 0}
	supply := 0
	for _, a := range accts {
		b := g.r.Intn(12)
		bal[a] = b
		supply += b
	}
	nk := 1 + g.r.Intn(8)
	atts := []any{}
	if g.p(0.03) {
		nk = 0 // a chain without attesters
	}
	for _, i := range g.r.Perm(8)[:nk] {
		atts = append(atts, M{"key": keyNames[i], "sp": g.pick([]string{"hex", "hex", "0x", "UP"})})
	}
	s := M{"owner": g.pick(accts), "pending": "none", "attMgr": g.pick(accts), "pauser": g.pick(accts), "tokCtl": g.pick(accts),
		"attesters": atts, "threshold": 1 + g.r.Intn(nk+1-b2i(nk > 0)), "pausedBM": g.p(0.1), "pausedSR": g.p(0.1),
		"maxBody": []int{132, 200, 8000, 132, 200, 8000, 0}[g.r.Intn(7)], "nextNonce": []int{0, 0, 1, 2, 3, 4, 3497}[g.r.Intn(7)], "used": []any{}, "pairs": []any{}, "msgrs": []any{},
		"limits": []any{}, "bal": bal, "supply": supply}
	if g.p(0.3) {
		s["pending"] = g.pick(accts)
	}
	for _, d := range []string{"d1", "d2", "d3"} {
		if g.p(0.7) {
			s["msgrs"] = append(s["msgrs"].([]any), M{"d": d, "addr": g.msgrAddr()})
		}
		if g.p(0.7) {
			s["pairs"] = append(s["pairs"].([]any), M{"d": d, "t": g.token(), "denom": g.pick([]string{"MINT", "MINT", "MINT_UP"})})
		}
	}
	if g.p(0.5) {
		s["limits"] = []any{M{"denom": "MINT", "amt": 1 + g.r.Intn(4)}}
		if g.p(0.3) { // several entries, among them another spelling of the minting denom
			s["limits"] = append(s["limits"].([]any), M{"denom": "MINT_UP", "amt": 1 + g.r.Intn(6)})
		}
		if g.p(0.3) {
			s["limits"] = append(s["limits"].([]any), M{"denom": "OTHER", "amt": 1 + g.r.Intn(6)})
		}
	}
	return s
}

// absorb updates the generator's knowledge from an observed event
func (g *gen) absorb(ev M) {
	obs := getm(ev, "obs")
	g.st = getm(obs, "post")
	if gets(obs, "res") != "ok" {
		m := getm(ev, "msg")
		if t := gets(m, "type"); t == "ReceiveMessage" || t == "DepositForBurn" || t == "DepositForBurnWithCaller" {
			if len(arr(obs, "calls")) > 0 { // it got as far as the ledger
				g.again = m
			}
			if t == "ReceiveMessage" && len(g.retry) < 20 {
				g.retry = append(g.retry, m)
			}
		}
		return
	}
	for _, e := range arr(obs, "evs") {
		em := e.(M)
		if em["e"] == "MessageSent" {
			if bz, _ := json.Marshal(em["msg"]); !bytes.Contains(bz, []byte("-777")) && !bytes.Contains(bz, []byte(`"id":-1`)) {
				g.outbox = append(g.outbox, em["msg"].(M)) // (values without a symbol cannot be re-concretised)
			}
		}
	}
	if m := getm(ev, "msg"); gets(m, "type") == "ReceiveMessage" {
		g.inbox = append(g.inbox, m)
	}
}

func init() { _ = fmt.Sprint }

// jsonRoundTrip normalises Go values (ints, M) into what encoding/json would produce on re-reading.
func jsonRoundTrip(v any) M {
	bz, err := json.Marshal(v)
	if err != nil {
		panic(err)
	}
	var out M
	if err := json.Unmarshal(bz, &out); err != nil {
		panic(err)
	}
	return out
}

func cmdDrive(tab *SymTab, bw *bufio.Writer, workers, n, depth int, seed int64) {
	type res struct{ bz []byte }
	jobs := make(chan int, n)
	results := make(chan []byte, 64)
	var wg sync.WaitGroup
	for w := 0; w < workers; w++ {
		wg.Add(1)
		go func() {
			defer wg.Done()
			inst := NewInstance(tab, false)
			for id := range jobs {
				g := &gen{r: rand.New(rand.NewSource(seed*1_000_003 + int64(id)))}
				inst.Reset()
				gs := jsonRoundTrip(g.genesis())
				inst.Materialise(gs)
				init, junk0 := inst.ProjectState()
				g.st = jsonRoundTrip(init)
				var evs []any
				for i := 0; i < depth; i++ {
					m, f := g.next()
					m = jsonRoundTrip(m)
					ev := jsonRoundTrip(runEvent(inst, g.st, m, f))
					evs = append(evs, ev)
					g.absorb(ev)
				}
				h := M{"id": id, "init": init, "initok": len(junk0) == 0 && sameState(gs, jsonRoundTrip(init)), "events": evs}
				if !h["initok"].(bool) {
					h["pre"] = fullState(gs, jsonRoundTrip(init))
					h["junk0"] = toAny(junk0)
				}
				bz, err := json.Marshal(h)
				if err != nil {
					panic(err)
				}
				results <- bz
			}
		}()
	}
	var wwg sync.WaitGroup
	wwg.Add(1)
	go func() {
		defer wwg.Done()
		for bz := range results {
			bw.Write(bz)
			bw.WriteByte('\n')
		}
	}()
	for i := 1; i <= n; i++ {
		jobs <- i
	}
	close(jobs)
	wg.Wait()
	close(results)
	wwg.Wait()
	fmt.Fprintf(os.Stderr, "drive: %d histories of %d steps\n", n, depth)
}

func (g *gen) pick2(xs []int) int { return xs[g.r.Intn(len(xs))] }
