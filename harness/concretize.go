package main

// abstract message record (as written by TLC / the driver) -> type URL + protobuf wire bytes

import (
	"fmt"

	sdkmath "cosmossdk.io/math"
	"github.com/cosmos/gogoproto/proto"
	"google.golang.org/protobuf/encoding/protowire"

	"github.com/circlefin/noble-cctp/x/cctp/types"
)

// dropField removes every occurrence of top-level field `num` from protobuf wire bytes.
func dropField(bz []byte, num protowire.Number) []byte {
	var out []byte
	for len(bz) > 0 {
		n, typ, tl := protowire.ConsumeTag(bz)
		if tl < 0 {
			panic("dropField: bad tag")
		}
		vl := protowire.ConsumeFieldValue(n, typ, bz[tl:])
		if vl < 0 {
			panic("dropField: bad value")
		}
		if n != num {
			out = append(out, bz[:tl+vl]...)
		}
		bz = bz[tl+vl:]
	}
	return out
}

func (in *Instance) amountInt(i int) sdkmath.Int {
	if i == AbsentAmt {
		return sdkmath.ZeroInt() // field is dropped from the wire afterwards
	}
	return sdkmath.NewIntFromBigInt(in.T.Amount(i))
}

// Concretise returns the type URL and wire bytes of abstract message m.
func (in *Instance) Concretise(m M) (string, []byte) {
	t := in.T
	from := ""
	if f, ok := m["from"].(string); ok {
		from = t.AddrString(f)
	}
	var pm proto.Message
	var drop protowire.Number
	switch typ := gets(m, "type"); typ {
	case "SendMessage":
		pm = &types.MsgSendMessage{From: from, DestinationDomain: t.Dom(gets(m, "dst")), Recipient: t.Bytes(getb(m, "rcpt")),
			MessageBody: in.C.BodyBytes(getm(m, "body"))}
	case "SendMessageWithCaller":
		pm = &types.MsgSendMessageWithCaller{From: from, DestinationDomain: t.Dom(gets(m, "dst")), Recipient: t.Bytes(getb(m, "rcpt")),
			MessageBody: in.C.BodyBytes(getm(m, "body")), DestinationCaller: t.Bytes(getb(m, "caller"))}
	case "DepositForBurn":
		a := geti(m, "amt")
		pm = &types.MsgDepositForBurn{From: from, Amount: in.amountInt(a), DestinationDomain: t.Dom(gets(m, "dst")),
			MintRecipient: t.Bytes(getb(m, "mrcpt")), BurnToken: t.Denom(gets(m, "tok"))}
		if a == AbsentAmt {
			drop = 2
		}
	case "DepositForBurnWithCaller":
		a := geti(m, "amt")
		pm = &types.MsgDepositForBurnWithCaller{From: from, Amount: in.amountInt(a), DestinationDomain: t.Dom(gets(m, "dst")),
			MintRecipient: t.Bytes(getb(m, "mrcpt")), BurnToken: t.Denom(gets(m, "tok")), DestinationCaller: t.Bytes(getb(m, "caller"))}
		if a == AbsentAmt {
			drop = 2
		}
	case "ReceiveMessage":
		wire := in.C.WireBytes(getm(m, "wire"))
		pm = &types.MsgReceiveMessage{From: from, Message: wire, Attestation: t.Attestation(attOf(getm(m, "att")), wire)}
	case "ReplaceMessage":
		wire := in.C.WireBytes(getm(m, "orig"))
		pm = &types.MsgReplaceMessage{From: from, OriginalMessage: wire, OriginalAttestation: t.Attestation(attOf(getm(m, "att")), wire),
			NewMessageBody: in.C.BodyBytes(getm(m, "body")), NewDestinationCaller: t.Bytes(getb(m, "caller"))}
	case "ReplaceDepositForBurn":
		wire := in.C.WireBytes(getm(m, "orig"))
		pm = &types.MsgReplaceDepositForBurn{From: from, OriginalMessage: wire, OriginalAttestation: t.Attestation(attOf(getm(m, "att")), wire),
			NewDestinationCaller: t.Bytes(getb(m, "caller")), NewMintRecipient: t.Bytes(getb(m, "mrcpt"))}
	case "UpdateOwner":
		pm = &types.MsgUpdateOwner{From: from, NewOwner: t.AddrString(gets(m, "new"))}
	case "AcceptOwner":
		pm = &types.MsgAcceptOwner{From: from}
	case "UpdateAttesterManager":
		pm = &types.MsgUpdateAttesterManager{From: from, NewAttesterManager: t.AddrString(gets(m, "new"))}
	case "UpdatePauser":
		pm = &types.MsgUpdatePauser{From: from, NewPauser: t.AddrString(gets(m, "new"))}
	case "UpdateTokenController":
		pm = &types.MsgUpdateTokenController{From: from, NewTokenController: t.AddrString(gets(m, "new"))}
	case "UpdateMaxMessageBodySize":
		pm = &types.MsgUpdateMaxMessageBodySize{From: from, MessageSize: SizeVal(geti(m, "size"))}
	case "AddRemoteTokenMessenger":
		pm = &types.MsgAddRemoteTokenMessenger{From: from, DomainId: t.Dom(gets(m, "d")), Address: t.Bytes(getb(m, "addr"))}
	case "RemoveRemoteTokenMessenger":
		pm = &types.MsgRemoveRemoteTokenMessenger{From: from, DomainId: t.Dom(gets(m, "d"))}
	case "EnableAttester":
		a := getm(m, "att")
		pm = &types.MsgEnableAttester{From: from, Attester: t.AttesterString(gets(a, "key"), gets(a, "sp"))}
	case "DisableAttester":
		a := getm(m, "att")
		pm = &types.MsgDisableAttester{From: from, Attester: t.AttesterString(gets(a, "key"), gets(a, "sp"))}
	case "UpdateSignatureThreshold":
		pm = &types.MsgUpdateSignatureThreshold{From: from, Amount: ThresholdVal(geti(m, "amt"))}
	case "PauseBurningAndMinting":
		pm = &types.MsgPauseBurningAndMinting{From: from}
	case "UnpauseBurningAndMinting":
		pm = &types.MsgUnpauseBurningAndMinting{From: from}
	case "PauseSendingAndReceivingMessages":
		pm = &types.MsgPauseSendingAndReceivingMessages{From: from}
	case "UnpauseSendingAndReceivingMessages":
		pm = &types.MsgUnpauseSendingAndReceivingMessages{From: from}
	case "LinkTokenPair":
		pm = &types.MsgLinkTokenPair{From: from, RemoteDomain: t.Dom(gets(m, "d")), RemoteToken: t.Bytes(getb(m, "tok")),
			LocalToken: t.Denom(gets(m, "denom"))}
	case "UnlinkTokenPair":
		pm = &types.MsgUnlinkTokenPair{From: from, RemoteDomain: t.Dom(gets(m, "d")), RemoteToken: t.Bytes(getb(m, "tok")),
			LocalToken: t.Denom("MINT")}
	case "SetMaxBurnAmountPerMessage":
		a := geti(m, "amt")
		pm = &types.MsgSetMaxBurnAmountPerMessage{From: from, LocalToken: t.Denom(gets(m, "denom")), Amount: in.amountInt(a)}
		if a == AbsentAmt {
			drop = 3
		}
	default:
		panic("unknown message type " + typ)
	}
	bz, err := proto.Marshal(pm)
	if err != nil {
		panic(fmt.Sprintf("marshal %T: %v", pm, err))
	}
	if drop != 0 {
		bz = dropField(bz, drop)
	}
	return "/" + proto.MessageName(pm), bz
}

func attOf(a M) Att {
	out := Att{Pad: geti(a, "pad")}
	for _, s := range arr(a, "sigs") {
		sm := s.(map[string]any)
		out.Sigs = append(out.Sigs, Sig{K: gets(sm, "k"), Over: gets(sm, "over"), Enc: gets(sm, "enc")})
	}
	return out
}
