package main

// C20 (non-transaction inputs): hostile query requests, CLI address strings, under recover().

import (
	"bufio"
	"context"
	"encoding/json"
	"fmt"
	"os"
	"strings"

	"github.com/cosmos/cosmos-sdk/types/query"

	"github.com/circlefin/noble-cctp/x/cctp/client/cli"
	"github.com/circlefin/noble-cctp/x/cctp/types"
)

func cmdMisc(tab *SymTab, bw *bufio.Writer, seed int64) {
	id := 0
	emit := func(kind, name, class, res string) {
		id++
		bz, _ := json.Marshal(M{"id": id, "kind": kind, "name": name, "class": class, "res": res})
		bw.Write(bz)
		bw.WriteByte('\n')
	}
	call := func(kind, name, class string, f func() error) {
		var err error
		res := guard(func() { err = f() })
		if res == "ok" && err != nil {
			res = "err"
		}
		emit(kind, name, class, res)
	}
	// ---- CLI address parser
	long := "0x" + strings.Repeat("ab", 33)
	for class, s := range map[string]string{"empty": "", "one_char": "0", "one_char_x": "x", "0x_only": "0x", "0x_odd": "0x1", "0x_nothex": "0xzz",
		"0x_20": "0x" + strings.Repeat("11", 20), "0x_32": "0x" + strings.Repeat("22", 32), "0x_33": long, "0X_upper": "0X" + strings.Repeat("AB", 20),
		"base58_ok": "4uQeVj5tqViQh7yWWGStvkEG1Zmhx6uasJtWCJziofM", "base58_invalid": "0OIl+/", "base58_long": strings.Repeat("z", 60),
		"unicode": "héllo wörld ſ", "nul": "\x00\x00", "space": "  "} {
		s := s
		call("cli", "parseAddress", class, func() error { _, err := cli.ParseAddressForVerif(s); return err })
	}
	// ---- queries in several states
	states := map[string]func(*gen) M{
		"populated": func(g *gen) M { return g.genesis() },
		"empty": func(g *gen) M {
			s := g.genesis()
			s["pairs"], s["msgrs"], s["limits"], s["used"] = []any{}, []any{}, []any{}, []any{}
			return s
		},
	}
	for sname, mk := range states {
		inst := NewInstance(tab, false)
		g := &gen{r: newRand(seed)}
		inst.Materialise(jsonRoundTrip(mk(g)))
		ctx := context.Context(inst.ctx)
		k := inst.K
		pages := map[string]*query.PageRequest{
			"nil": nil, "key_and_offset": {Key: []byte{1, 2, 3}, Offset: 5, Limit: 2}, "huge_limit": {Limit: ^uint64(0)}, "huge_offset": {Offset: ^uint64(0) - 1, Limit: 1},
			"reverse": {Reverse: true, Limit: 1, CountTotal: true}, "garbage_key": {Key: []byte("\xff\xfe/zz"), Limit: 3}, "zero": {},
		}
		for pc, p := range pages {
			p := p
			c := sname + "/" + pc
			call("query", "Attesters", c, func() error { _, e := k.Attesters(ctx, &types.QueryAllAttestersRequest{Pagination: p}); return e })
			call("query", "PerMessageBurnLimits", c, func() error {
				_, e := k.PerMessageBurnLimits(ctx, &types.QueryAllPerMessageBurnLimitsRequest{Pagination: p})
				return e
			})
			call("query", "TokenPairs", c, func() error { _, e := k.TokenPairs(ctx, &types.QueryAllTokenPairsRequest{Pagination: p}); return e })
			call("query", "RemoteTokenMessengers", c, func() error {
				_, e := k.RemoteTokenMessengers(ctx, &types.QueryRemoteTokenMessengersRequest{Pagination: p})
				return e
			})
			call("query", "UsedNonces", c, func() error { _, e := k.UsedNonces(ctx, &types.QueryAllUsedNoncesRequest{Pagination: p}); return e })
		}
		// nil requests for all 19
		c := sname + "/nil_request"
		call("query", "Roles", c, func() error { _, e := k.Roles(ctx, nil); return e })
		call("query", "Attester", c, func() error { _, e := k.Attester(ctx, nil); return e })
		call("query", "Attesters", c, func() error { _, e := k.Attesters(ctx, nil); return e })
		call("query", "PerMessageBurnLimit", c, func() error { _, e := k.PerMessageBurnLimit(ctx, nil); return e })
		call("query", "PerMessageBurnLimits", c, func() error { _, e := k.PerMessageBurnLimits(ctx, nil); return e })
		call("query", "BurningAndMintingPaused", c, func() error { _, e := k.BurningAndMintingPaused(ctx, nil); return e })
		call("query", "SendingAndReceivingMessagesPaused", c, func() error { _, e := k.SendingAndReceivingMessagesPaused(ctx, nil); return e })
		call("query", "MaxMessageBodySize", c, func() error { _, e := k.MaxMessageBodySize(ctx, nil); return e })
		call("query", "NextAvailableNonce", c, func() error { _, e := k.NextAvailableNonce(ctx, nil); return e })
		call("query", "SignatureThreshold", c, func() error { _, e := k.SignatureThreshold(ctx, nil); return e })
		call("query", "TokenPair", c, func() error { _, e := k.TokenPair(ctx, nil); return e })
		call("query", "TokenPairs", c, func() error { _, e := k.TokenPairs(ctx, nil); return e })
		call("query", "UsedNonce", c, func() error { _, e := k.UsedNonce(ctx, nil); return e })
		call("query", "UsedNonces", c, func() error { _, e := k.UsedNonces(ctx, nil); return e })
		call("query", "RemoteTokenMessenger", c, func() error { _, e := k.RemoteTokenMessenger(ctx, nil); return e })
		call("query", "RemoteTokenMessengers", c, func() error { _, e := k.RemoteTokenMessengers(ctx, nil); return e })
		call("query", "BurnMessageVersion", c, func() error { _, e := k.BurnMessageVersion(ctx, nil); return e })
		call("query", "LocalMessageVersion", c, func() error { _, e := k.LocalMessageVersion(ctx, nil); return e })
		call("query", "LocalDomain", c, func() error { _, e := k.LocalDomain(ctx, nil); return e })
		// hostile arguments of the single-item queries
		for tc, tok := range map[string]string{"empty": "", "0x": "0x", "nothex": "zz", "odd": "abc", "33bytes": strings.Repeat("ab", 33), "unicode": "ſſ", "0x0x": "0x0xab"} {
			tok := tok
			call("query", "TokenPair", sname+"/token_"+tc, func() error {
				_, e := k.TokenPair(ctx, &types.QueryGetTokenPairRequest{RemoteDomain: 0, RemoteToken: tok})
				return e
			})
		}
		for ac, a := range map[string]string{"empty": "", "slash": "a/b/", "unicode": "ſ", "long": strings.Repeat("f", 5000)} {
			a := a
			call("query", "Attester", sname+"/attester_"+ac, func() error { _, e := k.Attester(ctx, &types.QueryGetAttesterRequest{Attester: a}); return e })
			call("query", "PerMessageBurnLimit", sname+"/denom_"+ac, func() error {
				_, e := k.PerMessageBurnLimit(ctx, &types.QueryGetPerMessageBurnLimitRequest{Denom: a})
				return e
			})
		}
		call("query", "UsedNonce", sname+"/max", func() error {
			_, e := k.UsedNonce(ctx, &types.QueryGetUsedNonceRequest{SourceDomain: ^uint32(0), Nonce: ^uint64(0)})
			return e
		})
	}
	fmt.Fprintf(os.Stderr, "misc: %d calls\n", id)
}
